"""C16 - generator faithfulness: decision kernels (below) plus the end-to-end run of the real
generator on a synthetic definition family (kv.props.c16e).

The kernels are the integer/boolean/character-class decisions of which fields a version
has, whether they are nullable/tagged/flexible and how names are cased:

* codegen.versions.VersionRange.matches, codegen.parser._BaseField.get_tag /
  is_nullable_for_version, PrimitiveField.is_nullable - on stand-in field models with
  symbolic ranges, tags and versions (every integer at once);
* codegen.generate_schema.filter_version_fields on three fields with symbolic ranges;
* codegen.case.to_snake_case on strings of length <= 6 whose characters carry a SYMBOLIC
  character class (upper/lower/digit/other): each path fixes a class pattern and the
  positions of the inserted underscores are compared with an independent statement of the
  convention; the builtin-suffix rule on the finite set dir(builtins).
(The header-schema rule kernel is shared with C08.)"""
from __future__ import annotations

import builtins
import sys
import time

import z3

from .. import shapes
from .. import sym as S
from ..core import Stats, Unsupported, Violation, ctx, explore

_REPO = __import__("os").environ.get("KIO_REPO", "/repo")
if _REPO not in sys.path:
    sys.path.insert(0, _REPO)

I31 = (-(2**31), 2**31)


def _range(I, name):
    """a VersionRange with symbolic bounds in one of the upstream spellings N-M, N+, none"""
    from codegen.versions import VersionRange

    kind = I.choose(name + "_kind", ["closed", "open", "none"])
    lo = I.int(name + "_low", *I31)
    if kind == "closed":
        hi = I.int(name + "_high", *I31)
        return VersionRange(lo, hi), (lambda v: I.all([lo <= v, v <= hi]))
    if kind == "open":
        return VersionRange(lo, float("inf")), (lambda v: lo <= v)
    return VersionRange(float("inf"), float("-inf")), (lambda v: False)


def lemma_version_range(I):
    v = I.int("version", *I31)
    r, spec = _range(I, "r")
    I.check("matches_iff_low<=v<=high", I.iff(r.matches(v), spec(v)))


def _field(I, cls, **kw):
    from codegen.versions import VersionRange

    base = dict(name="F", versions=VersionRange(0, float("inf")), nullableVersions=None, ignorable=False, mapKey=False, about=None, entityType=None, tag=None, taggedVersions=None)
    base.update(kw)
    return cls.construct(**base)


def lemma_get_tag(I):
    from codegen.parser import PrimitiveField, Primitive

    v = I.int("version", *I31)
    has = I.choose("tagged", [False, True])
    if has:
        tr, spec = _range(I, "tagged")
        tag = I.int("tag", 0, 2**31 - 1)
        f = _field(I, PrimitiveField, type=Primitive.int32, default=None, tag=tag, taggedVersions=tr)
        r = f.get_tag(v)
        if r is None:
            I.check("tag_iff_version_in_taggedVersions", I.not_(spec(v)))
        else:
            I.check("tag_iff_version_in_taggedVersions", spec(v))
            I.check("tag_value", r == tag)
    else:
        f = _field(I, PrimitiveField, type=Primitive.int32, default=None)
        I.check("untagged_field_has_no_tag", f.get_tag(v) is None)


def lemma_nullable_for_version(I):
    from codegen.parser import PrimitiveField, Primitive

    v = I.int("version", *I31)
    has = I.choose("has_nullableVersions", [False, True])
    if has:
        nr, spec = _range(I, "nullable")
        f = _field(I, PrimitiveField, type=Primitive.string, default=None, nullableVersions=nr)
        I.check("nullable_iff_version_in_nullableVersions", I.iff(f.is_nullable_for_version(v), spec(v)))
    else:
        f = _field(I, PrimitiveField, type=Primitive.string, default=None)
        I.check("not_nullable_without_nullableVersions", f.is_nullable_for_version(v) is False)


NUMERIC = ("int8", "int16", "int32", "int64", "uint16", "uint32", "uint64", "float64")


def lemma_primitive_is_nullable(I):
    from codegen.parser import PrimitiveField, Primitive

    v = I.int("version", *I31)
    prim = I.choose("primitive", list(Primitive))
    ignorable = I.choose("ignorable", [False, True])
    default = I.choose("default", [None, "-1", "0", "null"])
    kw = dict(type=prim, default=default, ignorable=ignorable)
    nspec = lambda v: False
    tspec = lambda v: False
    if I.choose("has_nullableVersions", [False, True]):
        nr, nspec = _range(I, "nullable")
        kw["nullableVersions"] = nr
    if I.choose("tagged", [False, True]):
        tr, tspec = _range(I, "tagged")
        kw["taggedVersions"] = tr
        kw["tag"] = 0
    f = _field(I, PrimitiveField, **kw)
    got = f.is_nullable(v)
    if prim.value in NUMERIC:
        I.check("numeric_primitives_are_never_nullable", I.not_(got) if type(got) is not bool else (got is False))
        return
    if prim in (Primitive.bool_, Primitive.error_code):
        # the wire format has no null bool / error code: a definition declaring one is not well-formed (skipped);
        # otherwise such a field is never optional - in particular not because it is tagged and ignorable
        if "nullableVersions" not in kw:
            I.check("bool_and_error_code_are_never_nullable", I.not_(got) if type(got) is not bool else (got is False))
        return
    spec = I.any([nspec(v), I.all([tspec(v), ignorable, default is None]), prim is Primitive.datetime_i64 and default == "-1"])
    I.check("nullable_iff_definition_says_so_for_this_version", I.iff(got, spec))


def lemma_filter_version_fields(I):
    from codegen.generate_schema import filter_version_fields
    from codegen.parser import PrimitiveField, Primitive

    v = I.int("version", *I31)
    fields, specs = [], []
    for k in range(3):
        r, spec = _range(I, f"f{k}")
        fields.append(_field(I, PrimitiveField, name=f"F{k}", type=Primitive.int32, default=None, versions=r))
        specs.append(spec(v))
    out = list(filter_version_fields(v, fields))
    # result is the in-order subsequence of exactly the visible fields
    pos = [fields.index(f) for f in out]
    I.check("result_is_in_declaration_order", pos == sorted(pos) and len(set(pos)) == len(pos))
    I.check("visible_iff_version_in_versions", I.all([I.iff(k in pos, specs[k]) for k in range(3)]))


LEMMAS = [("version_range_matches", lemma_version_range), ("field_get_tag", lemma_get_tag), ("field_is_nullable_for_version", lemma_nullable_for_version),
          ("primitive_field_is_nullable", lemma_primitive_is_nullable), ("filter_version_fields", lemma_filter_version_fields)]


# ---- to_snake_case on symbolic character classes ---------------------------------------------------
UPPER, LOWER, DIGIT, OTHER = 0, 1, 2, 3
REP = {UPPER: "Q", LOWER: "q", DIGIT: "7", OTHER: "-"}


CLASS_QUERIES = [0]  # how often the function under test asked a symbolic character for its class
BYPASS = "to_snake_case never asked a character for its class (it works on the string at C level, e.g. a regular expression): the character-class proxy cannot follow it"


class SymChar(str):
    """one character of unknown identity whose class is a solver variable"""

    def __new__(cls, kvar, idx):
        o = str.__new__(cls, "?")
        o.kvar = kvar
        o.idx = idx
        return o

    def __getitem__(self, k):
        if isinstance(k, slice):
            return SymText([self][k])
        return [self][k]

    def __iter__(self): return iter([self])
    def isupper(self):
        CLASS_QUERIES[0] += 1
        return S.SymBool(self.kvar == UPPER)

    def islower(self):
        CLASS_QUERIES[0] += 1
        return S.SymBool(self.kvar == LOWER)

    def isdigit(self):
        CLASS_QUERIES[0] += 1
        return S.SymBool(self.kvar == DIGIT)
    def isalpha(self): return S.SymBool(z3.Or(self.kvar == UPPER, self.kvar == LOWER))
    def isalnum(self): return S.SymBool(self.kvar != OTHER)
    def lower(self): return self
    def upper(self): return self
    def __add__(self, o): return SymText([self]) + o
    def __radd__(self, o): return SymText.of(o) + SymText([self])
    def __hash__(self): raise Unsupported("hash of a symbolic character")
    def __eq__(self, o):
        if isinstance(o, SymChar):
            return self.idx == o.idx
        raise Unsupported("comparison of a symbolic character with a literal")
    def __ne__(self, o): return not self.__eq__(o)


class SymText(str):
    """a string of SymChar / literal characters; as a str it reads as placeholders, so C-level
    operations (join, lower) keep the positions"""

    def __new__(cls, chars):
        o = str.__new__(cls, "".join("?" if isinstance(c, SymChar) else c for c in chars))
        o.chars = list(chars)
        return o

    @staticmethod
    def of(x):
        if isinstance(x, SymText):
            return x
        if isinstance(x, SymChar):
            return SymText([x])
        return SymText(list(x))

    def __getitem__(self, k):
        if isinstance(k, slice):
            return SymText(self.chars[k])
        return self.chars[k]

    def __iter__(self): return iter(self.chars)
    def __add__(self, o): return SymText(self.chars + SymText.of(o).chars)
    def __radd__(self, o): return SymText(SymText.of(o).chars + self.chars)
    def lower(self): return self
    def __hash__(self): return str.__hash__(self)


def spec_underscores(kvars):
    """independent statement of the convention: an underscore goes before character i (i >= 1)
    iff it is upper-case and (the previous one is lower-case, or the previous one is upper-case
    or a digit and the next one exists and is lower-case)"""
    n = len(kvars)
    out = []
    for i in range(1, n):
        cur_up = kvars[i] == UPPER
        prev_low = kvars[i - 1] == LOWER
        prev_up_or_digit = z3.Or(kvars[i - 1] == UPPER, kvars[i - 1] == DIGIT)
        nxt_low = (kvars[i + 1] == LOWER) if i + 1 < n else z3.BoolVal(False)
        out.append(z3.And(cur_up, z3.Or(prev_low, z3.And(prev_up_or_digit, nxt_low))))
    return out


class SnakeCase:
    def __init__(self, length):
        self.length = length

    def run(self, c):
        from codegen.case import to_snake_case

        kv = [z3.Int(f"class{i}") for i in range(self.length)]
        for k in kv:
            c.add(z3.And(k >= 0, k <= 3))
        # identifiers: only the first three classes occur in upstream names; 'other' kept to exercise the else branches
        c.notes["kv"] = kv
        text = SymText([SymChar(k, i) for i, k in enumerate(kv)])
        CLASS_QUERIES[0] = 0
        try:
            out = to_snake_case(text)
        except Unsupported:
            raise
        except Exception as e:
            if CLASS_QUERIES[0] == 0 and self.length >= 2:
                raise Unsupported(BYPASS)
            raise Violation("no_exception_on_any_name", {"exception": type(e).__name__, "msg": str(e)[:100]})
        if CLASS_QUERIES[0] == 0 and self.length >= 2:
            raise Unsupported(BYPASS)
        s = str(out)
        # recover the underscore positions: walk the output against the input characters
        got = []
        j = 0
        ok_shape = True
        for i in range(self.length):
            if j < len(s) and s[j] == "_" and i >= 1:
                got.append(True)
                j += 1
            elif i >= 1:
                got.append(False)
            if j < len(s) and s[j] == "?":
                j += 1
            else:
                ok_shape = False
        ok_shape = ok_shape and j == len(s)
        spec = spec_underscores(kv)
        c.outcome = s
        return [("output_is_the_input_characters_with_underscores", ok_shape),
                ("underscores_exactly_where_the_convention_puts_them", z3.And(*[sp == z3.BoolVal(g) for sp, g in zip(spec, got)]) if spec else True)]

    def witness(self, c, model, clause, info):
        ks = [model.eval(k, model_completion=True).as_long() for k in c.notes["kv"]]
        return {"snake": "".join(REP[k] for k in ks), "classes": ks, "info": info}


def builtin_suffix_rule():
    """finite: every lower-case builtin name gets a trailing underscore, other outputs do not"""
    from codegen.case import to_snake_case

    bad = []
    names = sorted(n for n in dir(builtins))
    for n in names:
        if n.islower() and n.isidentifier() and "_" not in n:
            if to_snake_case(n) != n + "_":
                bad.append(n)
    for n in ("Type", "Id", "Len", "Topic", "Name", "Value", "Filter", "Format", "Range", "Input"):
        exp = n.lower() + ("_" if n.lower() in dir(builtins) else "")
        if to_snake_case(n) != exp:
            bad.append(n)
    return bad


def index_generation():
    """finite: the real codegen.generate_index.build_index() run on the shipped schema package lists exactly
    the modules and API keys an independent package walk finds.  -> list of problems"""
    from codegen.generate_index import build_index

    from .c09 import key_names, truth

    bad = []
    try:
        name_map, key_map = build_index()
    except Exception as e:
        return [f"build_index raised {type(e).__name__}: {e}"]
    T = truth()
    got = {(n, int(v), et.name) for n, vm in name_map.items() for v, tm in vm.items() for et in tm}
    want = set(T)
    if got != want:
        bad.append(f"schema_name_map differs from the package walk: missing {sorted(want - got)[:3]} extra {sorted(got - want)[:3]}")
    kn = {k: sorted(v)[0] for k, v in key_names().items()}
    if dict(key_map) != kn:
        miss = {k: v for k, v in kn.items() if key_map.get(k) != v}
        bad.append(f"api_key_map differs from the payload classes: {dict(list(miss.items())[:3])} (generated {len(key_map)} keys, walk finds {len(kn)})")
    for (n, v, t), (mod, cls) in list(T.items()):
        path = name_map.get(n, {}).get(v, {})
        p = {et.name: s for et, s in path.items()}.get(t)
        if p is not None and p != f"{mod.__name__}:{cls.__qualname__}":
            bad.append(f"index path {p} is not {mod.__name__}:{cls.__qualname__}")
            break
    return bad


def task_snake(L):
    st = Stats()
    explore(SnakeCase(L), max_paths=6000, stats=st, deadline=time.time() + 240)
    if st.paths == 0 and BYPASS in (st.unsupported_msgs or {}):
        # the kernel is dropped from the claim for this run (DESIGN 2/C16), not reported as pass and not as failure
        return {"length": L, "stats": Stats().to_json(), "not_followed": True}
    return {"length": L, "stats": st.to_json()}


def check(tier):
    from .. import facts as F
    from .. import install, lemma, runner

    t0 = time.time()
    install.install()
    total = Stats()
    inconclusive = []
    rows = []
    for r in runner.pool_map(lemma.task_lemma, [("kv.props.c16", n, False, {"max_paths": 20000, "seconds": 300}) for n, _ in LEMMAS]):
        st = Stats.from_json(r["stats"])
        total.merge(st)
        rows.append({"kernel": r["lemma"], "paths": st.paths, "queries": st.queries})
        if st.paths == 0:
            inconclusive.append(f"kernel lemma {r['lemma']} vacuous")
        if st.capped:
            inconclusive.append(f"kernel lemma {r['lemma']} hit a cap")
    lengths = [1, 2, 3, 4, 5] if tier == "quick" else [1, 2, 3, 4, 5, 6]
    snake_not_followed = []
    for r in runner.pool_map(task_snake, lengths):
        st = Stats.from_json(r["stats"])
        if r.get("not_followed"):
            snake_not_followed.append(r["length"])
            continue
        total.merge(st)
        rows.append({"kernel": f"to_snake_case length {r['length']}", "paths": st.paths, "queries": st.queries})
        if st.capped:
            inconclusive.append(f"to_snake_case length {r['length']} hit the path cap")
    cex = list(total.cex)
    bad = builtin_suffix_rule()
    total.clauses["builtin_names_get_an_underscore_suffix"] = [1, 0 if bad else 1]
    if bad:
        cex.append({"clause": "builtin_names_get_an_underscore_suffix", "witness": {"snake_builtin": bad[0]}, "info": {}})
    ibad = index_generation()
    total.clauses["generated_index_lists_exactly_the_schema_modules_and_api_keys"] = [1, 0 if ibad else 1]
    if ibad:
        cex.append({"clause": "generated_index_lists_exactly_the_schema_modules_and_api_keys", "witness": {"index_generation": ibad[0]}, "info": {}})
    from . import c16e

    e2e = c16e.run(tier)
    total.merge(e2e["stats"])
    cex.extend(e2e["cex"])
    inconclusive.extend(e2e["inconclusive"])
    if total.unsupported:
        inconclusive.append(f"{total.unsupported} path(s) could not be followed: {list(total.unsupported_msgs.items())[:4]}")
    cnt = e2e["counts"]
    cov = runner.mc_coverage(
        total, functions=["codegen.versions.VersionRange.matches", "codegen.parser._BaseField.get_tag/is_nullable_for_version", "codegen.parser.PrimitiveField.is_nullable",
                          "codegen.generate_schema.filter_version_fields", "codegen.case.to_snake_case", "codegen.generate_index.build_index (concrete run on the shipped package, compared with a package walk)",
                          "codegen.generate_schema.main() end to end on the synthetic definition family (parse_file, generate_models, write_to_version_module, write_custom_type, exports)",
                          "kio.serial.entity_writer / entity_reader on the generated classes (symbolic instances)", "codegen.generate_index.build_index with the generated tree attached"],
        bounds={"versions_and_range_bounds": "[-2^31, 2^31]", "range_spellings": ["N-M", "N+", "none"], "primitives": "all members of codegen.parser.Primitive",
                "filter_version_fields": "3 fields", "to_snake_case": "lengths %s; each character's class (upper/lower/digit/other) symbolic" % lengths,
                "definition_family": "%d definitions in %d groups (hand-crafted + %s seeded pseudo-random), every declared version: %d generator runs, %d structure comparisons" % (
                    cnt["definitions"], cnt["groups"], "6" if tier == "quick" else "60", cnt["generator_runs"], cnt["structure_checks"]),
                "generated_class_instances": "per generated top-level class x version: shape schedule (base + deviations, %s), arrays 0..2, every integer over its whole range, payload lengths symbolic per region"
                                             % ("10 shapes" if tier == "quick" else "150 shapes, depth 2")},
        outside=["definitions outside the family (the family is finite: the quantifier 'every well-formed definition' is NOT discharged; each family member is decided for all instances within the bounds)",
                 "constructs that do not occur in the upstream release (recorded under observed_outside_claim, not judged)", "source text layout, docstrings, import order of the generated modules",
                 "names longer than %d characters in the symbolic naming kernel" % max(lengths)],
        rule="one state = one completed symbolic path of one generator kernel, or of the real writer+reader on one (generated class, shape)")
    cov["explanation"] = ("generator decision kernels executed symbolically; plus the real generator run end to end on %d synthetic definitions, the generated classes compared field by field with an independent reading of "
                          "the JSON and their encodings solver-compared with the definition-driven reference on %d (class, version) pairs over %d shapes (%d symbolic paths in total)"
                          % (cnt["definitions"], cnt["classes_explored"], cnt["shapes"], total.paths))
    cov["kernels"] = rows
    cov["kernels_dropped_from_the_claim"] = ([{"kernel": "to_snake_case on symbolic character classes", "lengths": snake_not_followed, "reason": BYPASS,
                                               "still_covered_by": "the naming of the generated fields of the definition family (concrete names, end to end)"}] if snake_not_followed else [])
    cov["definition_groups"] = e2e["rows"]
    cov["observed_outside_claim"] = e2e["observed"]
    cov["refused_outside_supported_subset"] = cnt["refused_outside_subset"]
    cov["unfinished_shape_schedules"] = cnt["unfinished_schedules"]
    cov["traces_validated_against_impl"] = cnt["validated"]
    return runner.finish("C16", tier, t0, level="other", coverage=cov, assumptions=["A3", "A7", "A8"], cex=cex, inconclusive=inconclusive, samples=rows[:5])
