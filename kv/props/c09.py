"""C09 - the dynamic index resolves every known entity and nothing else.

The real kio.index.load_entity_module / load_payload_module / load_entity_schema /
load_request_schema / load_response_schema run with a symbolic version (and a symbolic key
in the gaps between table keys); the independent truth is a walk of the package directory.
Facts about the generated tables (bijection key<->name, every module listed, every listed
path resolves) are decided as solver queries over the finite table."""
from __future__ import annotations

import importlib
import sys
import time

import z3

from .. import shapes
from ..core import Stats, Unsupported, Violation, explore
from ..sym import sym_var

I63 = (-(2**63), 2**63)
_truth = None


def truth():
    """(api name, version, type name) -> (module, class) found by walking the package"""
    global _truth
    if _truth is None:
        t = {}
        for c in shapes.all_entity_classes():
            if c.__type__.name == "nested":
                continue
            parts = c.__module__.split(".")
            t[(parts[2], int(parts[3][1:]), parts[4])] = (sys.modules[c.__module__], c)
        _truth = t
    return _truth


def key_names():
    out = {}
    for (api, v, t), (m, c) in truth().items():
        if hasattr(c, "__api_key__") and t in ("request", "response"):
            out.setdefault(int(c.__api_key__), set()).add(api)
    return out


class Lookup:
    def __init__(self, fn, first, etype, lo=None, hi=None):
        self.fn, self.first, self.etype = fn, first, etype  # first: api name (str) or None for key-based
        self.lo, self.hi = lo, hi
        self._cache = {}

    def run(self, c):
        import kio.index as ki
        from kio.static.constants import EntityType

        T = truth()
        ver, _ = sym_var("version", -(2**15), 2**15 - 1)
        c.notes["ver"] = ver
        by_key = self.first is None
        if by_key:
            key = self.lo if self.lo == self.hi else sym_var("key", self.lo, self.hi)[0]
            c.notes["key"] = key
            names = key_names().get(key) if type(key) is int else None
            name = sorted(names)[0] if names else None
        else:
            name = self.first
            key = None
        et = EntityType[self.etype]
        f = getattr(ki, self.fn)
        try:
            if self.fn in ("load_request_schema", "load_response_schema"):
                res = f(key, ver)
            elif by_key:
                res = f(key, ver, et)
            else:
                res = f(name, ver, et)
        except ki.UnknownAPIKey:
            c.outcome = "UnknownAPIKey"
            return [("UnknownAPIKey_iff_key_not_in_table", by_key and (type(key) is not int or key not in key_names()))]
        except ki.UnknownEntity:
            c.outcome = "UnknownEntity"
            if by_key and name is None:
                return [("UnknownEntity_only_for_known_key", False)]
            versions = sorted(v for (a, v, t) in T if a == name and t == self.etype)
            absent = z3.And(*[ver.e != v for v in versions]) if versions else True
            return [("UnknownEntity_iff_no_such_module", absent)]
        except Unsupported:
            raise
        except Exception as e:
            raise Violation("only_documented_errors", {"exception": type(e).__name__, "msg": str(e)[:200]})
        c.outcome = "resolved"
        # the path fixed the version: find it from the result
        if isinstance(res, type):
            mod = sys.modules[res.__module__]
            cls = res
        else:
            mod = res
            cls = None
        parts = mod.__name__.split(".")
        v = int(parts[3][1:])
        want = T.get((name, v, self.etype)) if name is not None else None
        obl = [("version_is_the_requested_one", ver == v)]
        if want is None:
            obl.append(("resolves_only_existing_entities", False))
        else:
            obl.append(("returns_exactly_the_module_or_class_found_by_package_walk", (mod is want[0]) and (cls is None or cls is want[1])))
        return obl

    def witness(self, c, model, clause, info):
        key = c.notes.get("key")
        return {"fn": self.fn, "name": self.first, "etype": self.etype, "key": None if key is None else shapes.concretise(key, model),
                "version": shapes.concretise(c.notes["ver"], model), "info": info}


def task(args):
    fn, first, etype, lo, hi = args
    vers = sorted({v for (a, v, t) in truth()})
    hints = sorted({x + d for x in vers for d in (-2, -1, 0, 1, 2)})
    st = Stats()
    explore(Lookup(fn, first, etype, lo, hi), max_paths=500, stats=st, hints=hints, deadline=time.time() + 300)
    return {"stats": st.to_json(), "task": [fn, first, etype, lo, hi]}


def facts():
    """finite facts about the generated tables, as solver queries over row indices"""
    from kio.schema.index import api_key_map, schema_name_map
    from pkgutil import resolve_name

    T = truth()
    res = []
    listed = {}
    for name, vm in schema_name_map.items():
        for v, tm in vm.items():
            for et, path in tm.items():
                listed[(name, int(v), et.name)] = path
    rows = sorted(set(T) | set(listed))
    i = z3.Int("row")
    in_truth = z3.Function("in_truth", z3.IntSort(), z3.BoolSort())
    in_index = z3.Function("in_index", z3.IntSort(), z3.BoolSort())
    resolves = z3.Function("resolves_to_truth", z3.IntSort(), z3.BoolSort())
    base = []
    for k, r in enumerate(rows):
        base.append(in_truth(k) == (r in T))
        base.append(in_index(k) == (r in listed))
        ok = False
        if r in listed and r in T:
            try:
                ok = resolve_name(listed[r]) is T[r][1] and resolve_name(listed[r].split(":")[0]) is T[r][0]
            except Exception:
                ok = False
        base.append(resolves(k) == ok)

    def q(name, bad, describe):
        s = z3.Solver()
        s.add(*base)
        s.add(i >= 0, i < len(rows), bad)
        r = s.check()
        if r == z3.unsat:
            res.append((name, True, None))
        elif r == z3.sat:
            res.append((name, False, describe(s.model().eval(i).as_long())))
        else:
            res.append((name, None, "unknown"))

    q("every_schema_module_is_listed", z3.And(in_truth(i), z3.Not(in_index(i))), lambda k: str(rows[k]))
    q("nothing_else_is_listed", z3.And(in_index(i), z3.Not(in_truth(i))), lambda k: str(rows[k]))
    q("every_listed_path_resolves_to_the_walked_class", z3.And(in_index(i), in_truth(i), z3.Not(resolves(i))), lambda k: str(rows[k]))
    # api_key_map: bijection onto the api names that have payload modules
    kn = key_names()
    keys = sorted(set(kn) | set(api_key_map))
    j = z3.Int("key_row")
    names_sorted = sorted({a for s_ in kn.values() for a in s_} | set(api_key_map.values()))
    nid = {a: k for k, a in enumerate(names_sorted)}
    tk = z3.Function("truth_name_of_key", z3.IntSort(), z3.IntSort())
    ik = z3.Function("index_name_of_key", z3.IntSort(), z3.IntSort())
    kb = []
    for k_, key in enumerate(keys):
        tn = sorted(kn.get(key, []))
        kb.append(tk(k_) == (nid[tn[0]] if len(tn) == 1 else -1 - len(tn)))
        kb.append(ik(k_) == (nid[api_key_map[key]] if key in api_key_map else -100))
    s = z3.Solver()
    s.add(*kb)
    s.add(j >= 0, j < len(keys), tk(j) != ik(j))
    r = s.check()
    res.append(("api_key_map_is_exactly_key_to_name_of_payload_classes", r == z3.unsat, None if r == z3.unsat else f"key {keys[s.model().eval(j).as_long()]}" if r == z3.sat else "unknown"))
    j2 = z3.Int("key_row2")
    s = z3.Solver()
    s.add(*kb)
    s.add(j >= 0, j < len(keys), j2 >= 0, j2 < len(keys), j != j2, ik(j) == ik(j2), ik(j) != -100)
    r = s.check()
    res.append(("api_keys_map_one_to_one_to_names", r == z3.unsat, None if r != z3.sat else f"keys {keys[s.model().eval(j).as_long()]} and {keys[s.model().eval(j2).as_long()]}"))
    return res, len(rows), len(keys)


def check(tier):
    from kio.static.constants import EntityType

    from .. import install, runner

    t0 = time.time()
    install.install()
    import kio.index  # noqa: F401

    T = truth()
    kn = key_names()
    keys = sorted(kn)
    slices = []
    prev = I63[0] - 1
    for k in keys:
        if k - 1 >= prev + 1:
            slices.append((prev + 1, k - 1))
        slices.append((k, k))
        prev = k
    slices.append((prev + 1, I63[1]))
    tasks = []
    for lo, hi in slices:
        tasks.append(("load_request_schema", None, "request", lo, hi))
        tasks.append(("load_response_schema", None, "response", lo, hi))
        for et in ("request", "response"):
            tasks.append(("load_payload_module", None, et, lo, hi))
    names = sorted({a for (a, v, t) in T})
    near = ["", "no_such_api", "Produce", "produce ", "fetch2", "kio.schema.fetch"]
    for name in names + near:
        for et in [e.name for e in EntityType]:
            for fn in ("load_entity_module", "load_entity_schema"):
                tasks.append((fn, name, et, None, None))
    if tier == "quick":
        # names x types x 2 functions is large; quick keeps every name for the types it has plus one absent type
        keep = []
        for tk_ in tasks:
            fn, name, et, lo, hi = tk_
            if name is None or name in near:
                keep.append(tk_)
                continue
            has = any((name, v, et) in T for v in range(0, 30))
            if has or et == "nested" or (et == "header" and fn == "load_entity_schema"):
                keep.append(tk_)
        tasks = keep
    total = Stats()
    inconclusive = []
    resolved = 0
    for r in runner.pool_map(task, tasks, progress=500):
        st = Stats.from_json(r["stats"])
        total.merge(st)
        resolved += st.outcomes.get("resolved", 0)
        if st.capped:
            inconclusive.append(f"task {r['task']} hit the path cap")
    fres, nrows, nkeys = facts()
    cex = list(total.cex)
    for name, ok, detail in fres:
        total.clauses[name] = [1, 1 if ok else 0]
        total.queries += 1
        if ok is None:
            inconclusive.append(f"facts query {name}: solver unknown")
        elif not ok:
            cex.append({"clause": name, "witness": {"facts": name, "detail": detail}, "info": {}})
    if total.unsupported:
        inconclusive.append(f"{total.unsupported} path(s) could not be followed: {list(total.unsupported_msgs.items())[:4]}")
    cov = runner.mc_coverage(
        total, functions=["kio.index.load_entity_module/load_payload_module/load_entity_schema/load_request_schema/load_response_schema/_name_from_key/_get_entity_path/_resolve",
                          "kio.schema.index.api_key_map/schema_name_map (facts)"],
        bounds={"version": "symbolic over int16 (dict lookup by hash-fork over all versions +-2)", "api_key": "each table key concretely; every gap between table keys and both unbounded ends with a symbolic key over [-2^63, 2^63]",
                "names": f"{len(names)} known names + {len(near)} near-miss strings", "entity_types": "all 5 EntityType members", "index_rows": nrows, "api_keys": nkeys},
        outside=["non-int keys/versions (bool, float equal to an int) and unhashable arguments", "arbitrary strings beyond the listed near-misses"],
        rule="one state = one completed symbolic path of one lookup function for one (name | key slice, entity type)",
        extra={"lookups_resolved_to_a_module_or_class": resolved, "truth_entries_from_package_walk": len(T), "tasks": len(tasks),
               "facts_queries": [{"query": n, "holds": ok, "detail": d} for n, ok, d in fres]})
    samples = [{"task": list(t)} for t in tasks[:3]] + [{"facts_query": fres[0][0], "rows": nrows}]
    return runner.finish("C09", tier, t0, level="model_checking", coverage=cov, assumptions=["A2", "A7", "A8"], cex=cex, inconclusive=inconclusive, samples=samples)
