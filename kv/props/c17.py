"""C17 - new record batches are written in the Kafka v2 batch format.

(a) layout: the real write_new_batch / write_batch run on a symbolic NewRecordBatch (1..3
    records; offsets, attributes, producer fields over full ranges; microsecond timestamps;
    null/opaque keys, values and headers with symbolic lengths) and the byte sequence is
    compared with the independent reference encoder kv.kref.batch_items; CRC-32C is an
    uninterpreted fold, so "covers exactly these bytes" is a decidable equality of argument
    sequences.  Float time arithmetic is exact-rational here (A5q).
(b) timestamps under floats: the same write_new_batch runs in integer/real arithmetic with
    the IEEE standard model, the integer codecs of kio.records.writers being replaced by
    recording stubs (assume-guarantee cut: those codecs are decided bit-precisely in C11 and run
    unstubbed in (a)); base timestamp, max timestamp and every delta must be the exact
    floor-millisecond values."""
from __future__ import annotations

import contextlib
import os
import time

import z3

from .. import kref, shapes
from ..core import Stats, Unsupported, Violation, explore
from ..models import Sink, crc_model
from ..sym import SymBytes
from . import reclib


def tier_opts(tier):
    if tier == "quick":
        return dict(ns=[1, 2], max_shapes=40, max_dev=1, per_shape_paths=30, seconds=60, regions=reclib.REGIONS[:2], max_headers=1)
    return dict(ns=[1, 2, 3], max_shapes=400, max_dev=2, per_shape_paths=60, seconds=500, regions=reclib.REGIONS, max_headers=2)


class Layout:
    def __init__(self, n, shape, opts, entry="write_new_batch"):
        self.n, self.shape, self.opts, self.entry = n, shape, opts, entry

    def build(self, b):
        return reclib.build_new_batch(b, self.n, regions=self.opts["regions"], max_headers=self.opts["max_headers"], symbolic_ts=False)

    def run(self, c):
        import kio.records.writers as W

        b = shapes.Builder(c, self.shape)
        nb = self.build(b)
        c.notes["builder"] = b
        c.notes["batch"] = nb
        sink = Sink()
        try:
            getattr(W, self.entry)(sink, nb)
        except Unsupported:
            raise
        except Exception as e:
            raise Violation("writer_accepts_every_representable_batch", {"exception": type(e).__name__, "msg": str(e)[:200]})
        c.notes["sink_items"] = list(sink.items)
        ref = kref.batch_items(nb, lambda items: 0)  # CRC field compared separately below
        got = SymBytes(sink.items)._nz()
        ref = SymBytes(ref)._nz()
        c.outcome = "written"
        if len(got) != len(ref) or len(got) < 21:
            c.notes["violation_info"] = {"mismatch": f"{len(got)} vs {len(ref)} items"}
            return [("layout_equals_reference_v2_batch", False)]
        # first everything but the four CRC bytes (pure bit-vector reasoning), then the CRC bytes:
        # with the argument bytes proven equal, equality of the two uninterpreted folds is congruence
        body, why = kref.items_equal(got[:17] + got[21:], ref[:17] + ref[21:])
        # the CRC field must be CRC-32C of exactly the bytes that follow it, to the end of the batch
        crc, why2 = kref.items_equal(got[17:21], kref.be(crc_model(SymBytes(got[21:])), 4, False))
        if why or why2:
            c.notes["violation_info"] = {"mismatch": why or why2}
        return [("layout_equals_reference_v2_batch", body), ("crc32c_covers_attributes_to_end", crc), ("sink_only_written_to", not sink.monitor.forbidden)]

    def witness(self, c, model, clause, info):
        b = c.notes["builder"]
        m = shapes.prefer_small(c, b.leaves, extra=c.notes.get("neg_clause")) or model
        nb = reclib.concretise_batch(c.notes["batch"], m)
        return {"batch": reclib.batch_to_json(nb), "entry": self.entry, "info": info}


def validate_path(h, c):
    """concretise, run the real writer, compare with the symbolic output under the model, and
    decode the real bytes with the independent decoder"""
    import io

    import kio.records.writers as W

    b = c.notes.get("builder")
    if b is None or "sink_items" not in c.notes:
        return None
    m = shapes.prefer_small(c, b.leaves)
    if m is None:
        return None
    try:
        nb = reclib.concretise_batch(c.notes["batch"], m)
    except shapes.TooLarge:
        return None
    buf = io.BytesIO()
    W.write_new_batch(buf, nb)
    data = buf.getvalue()
    d = reclib.decode_batch(data)
    ok = d["crc_ok"] and d["length_ok"] and d["magic"] == 2 and d["consumed"] == len(data) and len(d["records"]) == len(nb.records)
    for r, dr in zip(nb.records, d["records"]):
        us = ((r.timestamp - reclib.EPOCH).days * 86400 + (r.timestamp - reclib.EPOCH).seconds) * 10**6 + (r.timestamp - reclib.EPOCH).microseconds
        ok = ok and dr["offset"] == r.offset and dr["attributes"] == r.attributes and dr["key"] == r.key and dr["value"] == r.value
        ok = ok and [(k, v) for k, v in dr["headers"]] == [(hh.key, hh.value) for hh in r.headers]
        ok = ok and abs(dr["timestamp_ms"] - us // 1000) <= 1  # exact value is decided by the R-mode lemma
    # symbolic bytes under the model (CRC bytes are uninterpreted: compare everything but the 4 CRC bytes)
    try:
        sym = shapes.concretise(SymBytes(c.notes["sink_items"]), m)
        ok = ok and len(sym) == len(data) and sym[:17] == data[:17] and sym[21:] == data[21:]
    except shapes.TooLarge:
        pass
    return ok


# ---- (b) R-mode lemma with recording stubs -------------------------------------------------------------
NOT_OBSERVABLE = "write_new_batch does not pass its timestamps through kio.records.writers.write_int64/write_signed_varlong: the recording stubs of the timestamp lemma see nothing"


@contextlib.contextmanager
def recording_stubs(log):
    import kio.records.writers as W

    names = ["write_int8", "write_int16", "write_int32", "write_int64", "write_uint32", "write_signed_varint", "write_signed_varlong"]
    saved = {n: getattr(W, n) for n in names}
    saved["crc32c"] = W.crc32c

    class _Crc:
        @staticmethod
        def crc32c(data, *a):
            return 0

    try:
        for n in names:
            setattr(W, n, (lambda nm: (lambda buffer, value: log.append((nm, value))))(n))
        W.crc32c = _Crc
        yield
    finally:
        for n, f in saved.items():
            setattr(W, n, f)


def mk_ts_lemma(n):
    def lemma(I):
        import datetime

        import kio.records.writers as W
        from kio.records.schema import NewRecordBatch, Record

        secs = [I.int(f"secs{j}", 0, reclib.MAX_S) for j in range(n)]
        micro = [I.int(f"micro{j}", 0, 999999) for j in range(n)]
        recs = tuple(Record(attributes=0, timestamp=I.datetime_utc(secs[j], micro[j]), offset=j, key=None, value=None, headers=()) for j in range(n))
        nb = NewRecordBatch(producer_id=0, producer_epoch=0, base_sequence=0, records=recs, attributes=0)
        log = []
        with recording_stubs(log):
            W.write_new_batch(I.sink() if not I.symbolic else _NullSink(), nb)
        i64s = [v for nm, v in log if nm == "write_int64"]
        deltas = [v for nm, v in log if nm == "write_signed_varlong"]
        if len(i64s) < 3 or len(deltas) != n:
            # the writer no longer hands these values to the module-level integer codecs this lemma listens on (e.g. it packs
            # them with a precompiled struct): the lemma cannot observe them and is dropped from the claim for this run
            from ..core import Unsupported

            raise Unsupported(NOT_OBSERVABLE)
        ms = [secs[j] * 1000 + micro[j] // 1000 for j in range(n)]
        mx = ms[0]
        for v in ms[1:]:
            mx = I.ite(v > mx, v, mx)
        I.check("records_written", True)
        # call order in write_new_batch: post-checksum part first (base timestamp, max timestamp, producer id), then base offset
        I.check("base_timestamp_is_floor_ms_of_first_record", i64s[0] == ms[0])
        I.check("max_timestamp_is_floor_ms_of_latest_record", i64s[1] == mx)
        I.check("timestamp_deltas_are_exact_milliseconds", I.all([deltas[j] == ms[j] - ms[0] for j in range(n)]))

    return lemma


class _NullSink:
    def write(self, b):
        return None


LEMMAS = [(f"batch_timestamps_{n}_records", (mk_ts_lemma(n), {"rmode": True})) for n in (1, 2, 3)]


def task(args):
    n, entry, opts = args
    t0 = time.time()
    st = Stats()
    probe = Layout(n, {}, opts, entry)
    nshapes = 0
    val_ok = val_bad = 0
    for shape, depth in shapes.shape_schedule(probe.build, opts["max_shapes"], opts["max_dev"]):
        if time.time() - t0 > opts["seconds"]:
            st.capped = True
            break
        h = Layout(n, shape, opts, entry)
        first = [True]

        def on_path(c, first=first, h=h):
            nonlocal val_ok, val_bad
            if first[0]:
                first[0] = False
                try:
                    r = validate_path(h, c)
                except Exception:
                    r = False
                if r is True:
                    val_ok += 1
                elif r is False:
                    val_bad += 1

        explore(h, max_paths=opts["per_shape_paths"], stats=st, deadline=t0 + opts["seconds"], on_path=on_path)
        nshapes += 1
    return {"n": n, "entry": entry, "stats": st.to_json(), "shapes": nshapes, "validated": val_ok, "validation_mismatch": val_bad}


def check(tier):
    from .. import install, lemma, runner

    t0 = time.time()
    install.install()
    opts = tier_opts(tier)
    tasks = [(n, e, opts) for n in opts["ns"] for e in ("write_new_batch", "write_batch")]
    total = Stats()
    validated = mismatch = 0
    rows = []
    inconclusive = []
    for r in runner.pool_map(task, tasks):
        st = Stats.from_json(r["stats"])
        st.capped = False
        total.merge(st)
        validated += r["validated"]
        mismatch += r["validation_mismatch"]
        rows.append({"records": r["n"], "entry": r["entry"], "shapes": r["shapes"], "paths": st.paths})
    ltasks = [("kv.props.c17", name, True, {}) for name, _ in LEMMAS if tier == "thorough" or not name.startswith("batch_timestamps_3")]
    lrows = []
    dropped = []
    for r in runner.pool_map(lemma.task_lemma, ltasks):
        st = Stats.from_json(r["stats"])
        if st.paths == 0 and not st.cex and set(st.unsupported_msgs or {}) == {NOT_OBSERVABLE}:
            dropped.append(r["lemma"])
            continue
        total.merge(st)
        lrows.append({"lemma": r["lemma"], "paths": st.paths, "queries": st.queries})
        if st.paths == 0:
            inconclusive.append(f"lemma {r['lemma']} vacuous")
        if st.capped:
            inconclusive.append(f"lemma {r['lemma']} hit a cap")
    if total.unsupported:
        inconclusive.append(f"{total.unsupported} path(s) could not be followed: {list(total.unsupported_msgs.items())[:4]}")
    if mismatch:
        inconclusive.append(f"{mismatch} trace validation(s) disagree with the real writer / independent decoder")
    cov = runner.mc_coverage(
        total, functions=["kio.records.writers.write_new_batch/write_batch/write_record/write_header/write_signed_compact_bytes/_write_batch_pre_checksum/_write_batch_post_checksum",
                          "kio.serial.writers.write_int*/write_uint32/write_signed_varint/write_signed_varlong (unstubbed in the layout harness)"],
        bounds={"records": opts["ns"], "headers_per_record": "0..%d symbolic, and 64 tiny concrete ones on the first record" % opts["max_headers"], "key_value_header_lengths": [list(r) for r in opts["regions"]],
                "offsets": "first offset over int64 minus a 2^33 margin, every other offset within int32 of it (the representable deltas)",
                "timestamps": "layout harness: five representative instants per record (shape variable); R-mode lemma: every microsecond instant from the epoch to 9999-12-31 (UTC) for 1..3 records", "scalars": "attributes, producer id/epoch, base sequence, leader epoch over their full ranges",
                "shape_deviation_depth": opts["max_dev"], "crc": "uninterpreted fold (A6); real library only in the concrete trace validations"},
        outside=["more than %d records, header counts other than 0..%d and 64" % (max(opts["ns"]), opts["max_headers"]), "non-UTC tzinfo on record timestamps", "the CRC polynomial itself (trusted library; validated on vectors in selftest)"],
        rule="one state = one completed symbolic path of write_new_batch/write_batch for one (record count, shape)",
        extra={"layout_runs": rows, "timestamp_lemmas_rmode": lrows, "trace_validations_with_independent_decoder": validated})
    cov["traces_validated_against_impl"] = validated
    cov["lemmas_dropped_from_the_claim"] = ([{"lemmas": dropped, "reason": NOT_OBSERVABLE, "still_covered_by": "the layout harness at the representative instants"}] if dropped else [])
    return runner.finish("C17", tier, t0, level="model_checking", coverage=cov, assumptions=["A1", "A5", "A5q", "A6", "A8"], cex=total.cex,
                         inconclusive=inconclusive, samples=rows[:3] + lrows[:2])
