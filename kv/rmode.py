"""kv.rmode - integer/real proxies with the standard model of IEEE-754 arithmetic.

RInt   : z3 Int term + conservative interval [lo, hi] (Fractions).
RFloat : a real term that already contains one absolute-error variable per rounding:
         a correctly rounded operation returns exact + e with |e| <= 2^-53 * M where M is
         an interval bound of |exact| (so everything stays *linear*); refinement: an
         exactly representable result (an integer of magnitude <= 2^53 computed from
         error-free terms) has e = 0.  Side condition (checked): no overflow, and the
         results are either 0 or of magnitude >= 2^-1022 is implied by the ranges used.
RRound : lazy round-half-even of a real term, compared with integers without
         introducing an integer variable.

These are over-approximations of float behaviour: `unsat` is a proof inside the stated
ranges; `sat` must be replayed on the real code before it is believed.
"""
from __future__ import annotations

import struct as _struct
from fractions import Fraction as Fr

import z3

from .core import Unsupported, ctx
from .sym import SymBool

U = Fr(1, 2**53)
BIG = Fr(2) ** 90


def q(fr: Fr):
    return z3.Q(fr.numerator, fr.denominator)


def _has_real_var(e):
    seen = set()
    st = [e]
    while st:
        t = st.pop()
        if t.get_id() in seen:
            continue
        seen.add(t.get_id())
        if z3.is_const(t) and t.decl().kind() == z3.Z3_OP_UNINTERPRETED and t.sort() == z3.RealSort():
            return True
        st.extend(t.children())
    return False


def _lift(o):
    """-> (term, is_int, lo, hi)"""
    t = type(o)
    if t is RInt:
        return o.e, True, o.lo, o.hi
    if t is bool:
        return z3.IntVal(int(o)), True, Fr(int(o)), Fr(int(o))
    if t is int:
        return z3.IntVal(o), True, Fr(o), Fr(o)
    if t is RFloat:
        return o.e, False, o.lo, o.hi
    if t is float:
        fr = Fr(o)
        return q(fr), False, fr, fr
    if t is RRound:
        r = o.materialise()
        return r.e, True, r.lo, r.hi
    raise TypeError(t.__name__)


class RInt:
    __class__ = property(lambda self: int)  # C-level isinstance() / `match` class patterns see the represented type
    __slots__ = ("e", "lo", "hi")

    def __init__(self, e, lo=-BIG, hi=BIG):
        self.e = e
        self.lo = Fr(lo)
        self.hi = Fr(hi)

    @staticmethod
    def var(name, lo, hi):
        v = z3.Int(name)
        ctx().add(z3.And(v >= lo, v <= hi))
        return RInt(v, lo, hi)

    def _cmp(self, o, f):
        try:
            oe, isint, _, _ = _lift(o)
        except TypeError:
            return NotImplemented
        return SymBool(f(self.e if isint else z3.ToReal(self.e), oe))

    def __eq__(self, o):
        if type(o) is RRound:
            return o.__eq__(self)
        return self._cmp(o, lambda a, b: a == b)
    def __ne__(self, o):
        if type(o) is RRound:
            return o.__ne__(self)
        return self._cmp(o, lambda a, b: a != b)
    def __le__(self, o): return self._cmp(o, lambda a, b: a <= b)
    def __lt__(self, o): return self._cmp(o, lambda a, b: a < b)
    def __ge__(self, o): return self._cmp(o, lambda a, b: a >= b)
    def __gt__(self, o): return self._cmp(o, lambda a, b: a > b)
    def __bool__(self): return bool(SymBool(self.e != 0))
    def __hash__(self): raise Unsupported("hash of RInt")

    def __add__(self, o):
        try:
            oe, isint, l, h = _lift(o)
        except TypeError:
            return NotImplemented
        if not isint:
            raise Unsupported("int + float in R-mode")
        return RInt(self.e + oe, self.lo + l, self.hi + h)
    __radd__ = __add__

    def __sub__(self, o):
        try:
            oe, isint, l, h = _lift(o)
        except TypeError:
            return NotImplemented
        if not isint:
            raise Unsupported("int - float in R-mode")
        return RInt(self.e - oe, self.lo - h, self.hi - l)

    def __rsub__(self, o):
        oe, isint, l, h = _lift(o)
        return RInt(oe - self.e, l - self.hi, h - self.lo)

    def __neg__(self): return RInt(-self.e, -self.hi, -self.lo)
    def __pos__(self): return self
    def __abs__(self):
        m = max(abs(self.lo), abs(self.hi))
        return RInt(z3.If(self.e < 0, -self.e, self.e), 0, m)

    def __mul__(self, o):
        if type(o) is float and o.is_integer():
            return (self / 1) * o
        if type(o) is int:
            a, b = self.lo * o, self.hi * o
            return RInt(self.e * o, min(a, b), max(a, b))
        if type(o) is RFloat:
            return NotImplemented
        raise Unsupported("non-linear integer product in R-mode")
    __rmul__ = __mul__

    def _qr(self, d):
        """floor quotient and remainder by a positive constant as fresh integers tied by
        linear constraints (x = q*d + r, 0 <= r < d) - much easier for the solver than div/mod terms."""
        c = ctx()
        cache = c.notes.setdefault("rint_qr", {})
        key = (self.e.get_id(), d)
        if key not in cache:
            qv = z3.Int(c.name("q"))
            rv = z3.Int(c.name("r"))
            c.add(z3.And(self.e == qv * d + rv, rv >= 0, rv < d))
            import math

            cache[key] = (RInt(qv, math.floor(self.lo / d), math.floor(self.hi / d)), RInt(rv, 0, d - 1), self.e)
        return cache[key][0], cache[key][1]

    def __floordiv__(self, o):
        if type(o) is int and o > 0:
            return self._qr(o)[0]
        raise Unsupported("floor division by symbolic/non-positive value in R-mode")

    def __mod__(self, o):
        if type(o) is int and o > 0:
            return self._qr(o)[1]
        raise Unsupported("modulo by symbolic/non-positive value in R-mode")

    def __divmod__(self, o): return self // o, self % o

    def __and__(self, o):
        # x & (2^k - 1) == x mod 2^k for every Python int (two's complement semantics of & on negative ints)
        if type(o) is int and o >= 0 and (o & (o + 1)) == 0:
            return self % (o + 1) if o else 0
        raise Unsupported("bitwise and with a non-mask constant in R-mode")

    __rand__ = __and__

    def __truediv__(self, o):
        # int / int true division: the correctly rounded quotient of the exact rational
        if type(o) in (int, float) and o > 0 and float(o).is_integer():
            o = int(o)
            return RFloat.rounded(z3.ToReal(self.e) / o, self.lo / o, self.hi / o)
        raise Unsupported("true division by symbolic/non-positive value in R-mode")

    def __round__(self, nd=None): return self
    def __trunc__(self): return self

    def to_bytes(self, length=1, byteorder="big", *, signed=False):
        code = {(1, True): "b", (2, True): "h", (4, True): "i", (8, True): "q", (1, False): "B", (2, False): "H", (4, False): "I", (8, False): "Q"}.get((length, bool(signed)))
        if code is None or byteorder != "big":
            raise Unsupported("R-mode to_bytes with an unusual width or byte order")
        lo, hi = Packed._R[code]
        if not bool(self >= lo) or not bool(self <= hi):
            raise OverflowError("int too big to convert")
        return Packed(">" + code, self)

    def __int__(self): raise Unsupported("int() of RInt reached C level")
    def __index__(self): raise Unsupported("index() of RInt reached C level")

    def __struct_pack__(self, fmt):
        return Packed.pack(fmt, self)

    def to_bytes(self, n=1, order="big", *, signed=False):
        return Packed.pack({(1, True): ">b", (2, True): ">h", (4, True): ">i", (8, True): ">q", (1, False): ">B",
                            (2, False): ">H", (4, False): ">I", (8, False): ">Q"}[(n, signed)], self)

    def __format__(self, s): return "<RInt>"
    def __repr__(self): return "<RInt>"


class RFloat:
    __class__ = property(lambda self: float)  # C-level isinstance() / `match` class patterns see the represented type
    __slots__ = ("e", "lo", "hi")
    _is_float_proxy = True

    def __init__(self, e, lo, hi):
        self.e = e
        self.lo = Fr(lo)
        self.hi = Fr(hi)

    @staticmethod
    def rounded(exact, lo, hi):
        """Correctly rounded value of the real term `exact` (known to lie in [lo, hi]):
        exact + err with |err| <= 2^-53 * |exact| (relative error of round-to-nearest for
        results in the normal range; linear because 2^-53 is a constant)."""
        c = ctx()
        mag = max(abs(lo), abs(hi))
        if mag >= Fr(2) ** 1000:
            raise Unsupported("float magnitude out of the standard-model range")
        eps = mag * U
        err = z3.Real(c.name("fe"))
        u = q(U)
        c.add(z3.Or(z3.And(exact >= 0, err <= u * exact, err >= -u * exact),
                    z3.And(exact < 0, err <= -u * exact, err >= u * exact)))
        if mag <= 2**53:
            # an exact result that is an integer of magnitude <= 2^53 is representable, hence returned exactly
            c.add(z3.Implies(z3.IsInt(exact), err == 0))
        c.notes["roundings"] = c.notes.get("roundings", 0) + 1
        return RFloat(exact + err, lo - eps, hi + eps)

    def __mul__(self, o):
        if type(o) in (int, float) and float(o).is_integer() and o > 0:
            k = int(o)
            return RFloat.rounded(self.e * k, self.lo * k, self.hi * k)
        raise Unsupported("float product with symbolic/non-integral factor in R-mode")
    __rmul__ = __mul__

    def __truediv__(self, o):
        if type(o) in (int, float) and float(o).is_integer() and o > 0:
            k = int(o)
            return RFloat.rounded(self.e / k, self.lo / k, self.hi / k)
        raise Unsupported("float division by symbolic value in R-mode")

    def __add__(self, o):
        oe, isint, l, h = _lift(o)
        return RFloat.rounded(self.e + (z3.ToReal(oe) if isint else oe), self.lo + l, self.hi + h)
    __radd__ = __add__

    def __sub__(self, o):
        oe, isint, l, h = _lift(o)
        return RFloat.rounded(self.e - (z3.ToReal(oe) if isint else oe), self.lo - h, self.hi - l)

    def __neg__(self): return RFloat(-self.e, -self.hi, -self.lo)

    def _cmp(self, o, f):
        try:
            oe, isint, _, _ = _lift(o)
        except TypeError:
            return NotImplemented
        return SymBool(f(self.e, z3.ToReal(oe) if isint else oe))

    def __eq__(self, o): return self._cmp(o, lambda a, b: a == b)
    def __ne__(self, o): return self._cmp(o, lambda a, b: a != b)
    def __ge__(self, o): return self._cmp(o, lambda a, b: a >= b)
    def __gt__(self, o): return self._cmp(o, lambda a, b: a > b)
    def __le__(self, o): return self._cmp(o, lambda a, b: a <= b)
    def __lt__(self, o): return self._cmp(o, lambda a, b: a < b)
    def __hash__(self): raise Unsupported("hash of RFloat")
    def __isfinite__(self): return True

    def __round__(self, nd=None):
        if nd is not None:
            raise Unsupported("round(x, n) in R-mode")
        return RRound(self.e, self.lo, self.hi)

    def __trunc__(self):
        fl = z3.ToInt(self.e)
        return RInt(z3.If(z3.Or(self.e >= 0, z3.ToReal(fl) == self.e), fl, fl + 1), self.lo - 1, self.hi + 1)

    def split_seconds(self):
        """CPython's fromtimestamp: round-half-even to microseconds in double arithmetic
        (_PyTime_ObjectToTimeval with ROUND_HALF_EVEN: intpart = trunc(x), frac = x - intpart
        exactly, frac*1e6 rounded to double then rounded half-even, carries normalised)."""
        c = ctx()
        ip = z3.Int(c.name("ip"))
        nonneg = self >= 0
        if bool(nonneg):
            c.add(z3.And(z3.ToReal(ip) <= self.e, self.e < z3.ToReal(ip) + 1))
        else:
            c.add(z3.And(z3.ToReal(ip) >= self.e, self.e > z3.ToReal(ip) - 1))
        frac = self.e - z3.ToReal(ip)
        scaled = RFloat.rounded(frac * 1_000_000, Fr(-1_000_000), Fr(1_000_000))
        us = z3.Int(c.name("us"))
        h = z3.Q(1, 2)
        c.add(z3.And(z3.ToReal(us) - scaled.e <= h, scaled.e - z3.ToReal(us) <= h))
        c.add(z3.Implies(z3.Or(z3.ToReal(us) - scaled.e == h, scaled.e - z3.ToReal(us) == h), us % 2 == 0))
        usi = RInt(us, -1_000_000, 1_000_000)
        ipi = RInt(ip, self.lo - 1, self.hi + 1)
        if bool(usi >= 1_000_000):
            usi = usi - 1_000_000
            ipi = ipi + 1
        elif bool(usi < 0):
            usi = usi + 1_000_000
            ipi = ipi - 1
        return ipi, usi

    def __float__(self): raise Unsupported("float() of RFloat reached C level")
    def __format__(self, s): return "<RFloat>"
    def __repr__(self): return "<RFloat>"


class RRound:
    """round-half-even(y) kept lazy."""
    __class__ = property(lambda self: int)  # C-level isinstance() / `match` class patterns see the represented type

    __slots__ = ("y", "lo", "hi", "_m")

    def __init__(self, y, lo, hi):
        self.y = y
        self.lo = lo
        self.hi = hi
        self._m = None

    def materialise(self) -> RInt:
        if self._m is None:
            c = ctx()
            r = z3.Int(c.name("rnd"))
            h = z3.Q(1, 2)
            c.add(z3.And(z3.ToReal(r) - self.y <= h, self.y - z3.ToReal(r) <= h))
            c.add(z3.Implies(z3.Or(z3.ToReal(r) - self.y == h, self.y - z3.ToReal(r) == h), r % 2 == 0))
            self._m = RInt(r, self.lo - 1, self.hi + 1)
        return self._m

    def _k(self, o):
        oe, isint, _, _ = _lift(o)
        if not isint:
            raise Unsupported("round() result compared with a float")
        return oe

    def __eq__(self, o):
        if type(o) is RRound:
            return self.materialise() == o.materialise()
        ke = self._k(o)
        k = z3.ToReal(ke)
        y = self.y
        h = z3.Q(1, 2)
        return SymBool(z3.Or(z3.And(y > k - h, y < k + h), z3.And(z3.Or(y == k - h, y == k + h), ke % 2 == 0)))

    def __ne__(self, o):
        return SymBool(z3.Not(self.__eq__(o).e))

    def __ge__(self, o):
        ke = self._k(o)
        k = z3.ToReal(ke)
        h = z3.Q(1, 2)
        return SymBool(z3.Or(self.y > k - h, z3.And(self.y == k - h, ke % 2 == 0)))

    def __le__(self, o):
        ke = self._k(o)
        k = z3.ToReal(ke)
        h = z3.Q(1, 2)
        return SymBool(z3.Or(self.y < k + h, z3.And(self.y == k + h, ke % 2 == 0)))

    def __gt__(self, o): return SymBool(z3.Not(self.__le__(o).e))
    def __lt__(self, o): return SymBool(z3.Not(self.__ge__(o).e))
    def __hash__(self): raise Unsupported("hash of RRound")
    def __add__(self, o): return self.materialise() + o
    __radd__ = __add__
    def __sub__(self, o): return self.materialise() - o
    def __rsub__(self, o): return o - self.materialise()
    def __mul__(self, o): return self.materialise() * o
    __rmul__ = __mul__
    def __floordiv__(self, o): return self.materialise() // o
    def __mod__(self, o): return self.materialise() % o
    def __divmod__(self, o): return divmod(self.materialise(), o)
    def __and__(self, o): return self.materialise() & o
    __rand__ = __and__
    def __neg__(self): return -self.materialise()
    def __index__(self): raise Unsupported("index() of RRound reached C level")
    def to_bytes(self, length=1, byteorder="big", *, signed=False): return self.materialise().to_bytes(length, byteorder, signed=signed)
    def __round__(self, nd=None): return self
    def __trunc__(self): return self

    def __struct_pack__(self, fmt):
        return Packed.pack(fmt, self)

    def __format__(self, s): return "<RRound>"
    def __repr__(self): return "<RRound>"


class Packed:
    """The bytes struct.pack would produce for an R-mode integer: kept as (format, value)."""
    __class__ = property(lambda self: bytes)  # C-level isinstance() / `match` class patterns see the represented type

    _R = {"b": (-2**7, 2**7 - 1), "B": (0, 2**8 - 1), "h": (-2**15, 2**15 - 1), "H": (0, 2**16 - 1),
          "i": (-2**31, 2**31 - 1), "I": (0, 2**32 - 1), "q": (-2**63, 2**63 - 1), "Q": (0, 2**64 - 1)}

    def __init__(self, fmt, v):
        self.fmt = fmt
        self.v = v

    @classmethod
    def pack(cls, fmt, v):
        code = fmt[-1]
        if code not in cls._R:
            raise Unsupported(f"struct format {fmt} in R-mode")
        lo, hi = cls._R[code]
        if not bool(v >= lo) or not bool(v <= hi):
            raise _struct.error(f"'{code}' format requires {lo} <= number <= {hi}")
        return Packed(fmt, v)

    def __struct_unpack__(self, fmt):
        if fmt != self.fmt:
            raise Unsupported("R-mode unpack with a different format than packed")
        return (self.v,)

    def __sym_len__(self):
        return _struct.calcsize(self.fmt)


class RSink:
    """Sink for R-mode lemmas: keeps the written objects."""

    def __init__(self):
        self.items = []

    def write(self, b):
        self.items.append(b)
        return b.__sym_len__() if hasattr(b, "__sym_len__") else len(b)


class RSrc:
    """Source that hands out pre-packed items in order (each read must ask for its size)."""

    def __init__(self, *items):
        self.items = list(items)
        self.sizes_ok = True

    def read(self, n=-1):
        if not self.items:
            return b""
        it = self.items.pop(0)
        want = it.__sym_len__() if hasattr(it, "__sym_len__") else len(it)
        if n != want:
            self.sizes_ok = False
            raise Unsupported("R-mode source read with unexpected size")
        return it


from . import sym as _S

_S._PROXY_BASE.update({RInt: int, RRound: int, RFloat: float, Packed: bytes})
