import sys, time, json
import z3
from kv import install
install.install()
from kv.props import entity
from kv import shapes
cid = sys.argv[1]; prop = sys.argv[2]
opts = entity.tier_opts(sys.argv[3] if len(sys.argv)>3 else "quick")
r = entity.task_class((prop, cid, opts))
st = r.pop("stats"); cex = st.pop("cex")
print(r); print({k: st[k] for k in ("paths","aborted","unsupported","unsupported_msgs","queries","solver_s","clauses","outcomes","capped")})
for c in cex[:3]: print(json.dumps(c)[:1500])
