import sys, json, time
from kv import install; install.install()
from kv import lemma
mod, name = sys.argv[1], sys.argv[2]
import importlib
m = importlib.import_module(mod)
entry = dict(m.LEMMAS)[name]; o = entry[1] if isinstance(entry, tuple) else {}
r = lemma.task_lemma((mod, name, bool(o.get("rmode")), o))
st = r["stats"]; cex = st.pop("cex")
print({k: st[k] for k in ("paths","aborted","unsupported","unsupported_msgs","queries","solver_s","clauses","outcomes","capped")})
for c in cex[:4]: print(json.dumps(c)[:600])
