#!/usr/bin/env python3
"""Regenerates /verif/MANIFEST.json from the table below (kept valid at all times)."""
import json, os
HERE = os.path.dirname(os.path.dirname(os.path.abspath(__file__)))
ids = [json.loads(l)["id"] for l in open(os.path.join(HERE, "properties.jsonl"))]

MC = "model_checking"
CHECKS = {
 "C01": dict(level=MC, design="2/C01", technique="symbolic execution of the real entity_writer/entity_reader on proxy values (z3 QF_BV), one solver query per path obligation; counterexamples replayed on the real code",
   text="Bounded symbolic exploration of kio's real writer and reader closures: for every explored (class, shape) all scalar field values are symbolic at once and the solver shows decode(encode(x)) == x and exact consumption on every feasible path; a model is replayed concretely before it is reported.",
   note="Bounds: arrays <= 2 elements, payload lengths < 2^31 in the listed regions, shapes up to the recorded deviation depth, time-typed fields at representatives. Trusted: boundary models (struct, BytesIO, uuid, enum lookup; differentially validated each run), z3."),
 "C02": dict(level=MC, design="2/C02", technique="symbolic differential: real entity_writer vs independent reference encoder on the same symbolic instance, byte-sequence equality decided by z3",
   text="The real writer's symbolic output is compared item by item with an independent spec-derived encoder (kv/kref.py) run on the same proxies under the same path condition; unsat of 'some byte differs' per path.",
   note="Same bounds as C01. Trusted: the reference encoder (about 300 lines, cross-validated concretely against protocol examples), boundary models, z3."),
 "C06": dict(level=MC, design="2/C06", technique="symbolic execution of the real reader on the writer's output with a symbolic stream limit k (all cut positions inside one read share a path)",
   text="The cut position is a solver variable ranging over every strict prefix length; each read forks once on 'fits before the cut'; on every feasible path the only admissible outcome is BufferUnderflow.",
   note="Same instance bounds as C01; the source model never blocks (a reader that blocks on a real socket is outside). Trusted: Src model, z3."),
 "C11": dict(level=MC, design="2/C11", technique="symbolic execution of each public reader/writer on proxy values against bit-level spec formulas (z3 QF_BV); time conversions in integer/real arithmetic with the standard model of IEEE rounding",
   text="One lemma per public primitive reader/writer: the real function runs on solver variables ranging over the whole value domain (all ints of the width, every 6/11-byte varint input, every length region, all whole-millisecond durations/timestamps) and the output is compared with an independently written arithmetic specification; reader-after-writer identity and refusal outside the domain are separate clauses.",
   note="Bounds per lemma are listed in the evidence. Float arithmetic in the time writers is over-approximated by the IEEE standard model (A5): unsat is a proof in the range, sat models are replayed on the real code. Trusted: struct/datetime models, z3."),
 "C12": dict(level=MC, design="2/C12", technique="symbolic execution of the real Phantom metaclass/predicates on proxy values against a pinned range table (z3 QF_BV; Int/Real standard model for the float-based predicates and writers)",
   text="isinstance(v, T), T(v) and T.parse(v) of the real Phantom types run on a solver variable v (integers over [-2^100, 2^100], every 64-bit float pattern, every microsecond duration, every microsecond instant with a symbolic fixed offset); membership is compared with a range table pinned in /verif, the nesting chains are implications between the symbolic membership terms, and member => writer accepts and reads back.",
   note="tzinfo restricted to fixed offsets; non-matching Python types are finite concrete cases. Trusted: datetime/struct models (validated differentially), IEEE standard model for dt.timestamp() and total_seconds(), z3."),
 "C03": dict(level=MC, design="2/C03", technique="symbolic execution of the real entity_reader on wire-first encodings produced by the independent reference encoder (symbolic wire values, forced/explicit-default tagged fields, unknown tags with symbolic number and size); z3 QF_BV",
   text="For every explored (class, shape) the reference encoder emits a conforming encoding over symbolic wire values together with the value it must decode to; the real reader runs on it and the solver shows on every path: no exception, decoded value equals the wire values (absent tagged fields = defaults), exact consumption. Unknown tagged fields have a symbolic tag number (all numbers not declared by the class) and a symbolic size.",
   note="Bounds as C01 plus: <= 2 unknown tags per tagged section, sizes < 2^21, time-typed fields at wire representatives (whole domain decided in C05/C11). Known finding: int64 ms values beyond Python's datetime/timedelta range. Trusted: reference encoder, boundary models, hash-hint rule for dict lookups (A2), z3."),
 "C05": dict(level=MC, design="2/C05", technique="symbolic execution of real reader then real writer on canonical reference encodings (bytes in == bytes out decided by z3); full-wire-domain primitive lemmas in Int/Real standard-model arithmetic",
   text="(a) entity level: canonical encodings from the reference encoder over symbolic wire values are decoded by the real reader and re-encoded by the real writer; the solver shows byte-for-byte equality and decode/encode idempotence on every path where the reader accepts the input. (b) primitive level over the full wire domain (all 2^32 / 2^64 millisecond values, all 16-byte UUID patterns, all 64-bit float patterns, all int16 error codes).",
   note="Inputs the reader refuses with a documented error are outside 'accepted input' (the refusal set itself is a clause in the primitive lemmas). Float time conversions: IEEE standard model (A5). Trusted: reference encoder, boundary models, z3."),
 "C07": dict(level=MC, design="2/C07", technique="symbolic execution of real writers/readers on one write-only sink and one read-only source with call-protocol monitors; two sink kinds compared symbolically; concrete replay into real BytesIO / asyncio.StreamWriter / socketpair file objects",
   text="A stream lead ++ m x (header, payload) ++ trail with all scalars symbolic is written through a sink exposing only write() and read back through a source exposing only read(); any other attribute access fails the check; decoded messages equal the originals and exactly the trailing bytes remain; the byte sequence is identical for write() returning a count or None. One model per class and shape is replayed through real stream objects.",
   note="m <= 2 (thorough 3) messages; real OS stream kinds only at the replayed points. Trusted: Sink/Src models, z3."),
 "C10": dict(level=MC, design="2/C10", technique="symbolic execution of the real entity_reader on N fully symbolic bytes and on valid encodings with one symbolically placed and valued corrupted byte; outcome classes decided per path",
   text="Every feasible path of the real reader over an arbitrary N-byte buffer (and over a one-byte-corrupted valid encoding) ends in an entity that the real writer re-encodes, or in SerialError/ValueError/OverflowError; any other exception is a counterexample. Arrays longer than the input are cut by the progress clause (array item classes never decode from zero bytes).",
   note="N = 5 quick / 7 thorough; one corrupted byte; dict lookups via the hash-hint rule (A2); time arithmetic at entity level under the exact-rational abstraction (A5q). Path caps per class are listed in the evidence, not counted as pass."),
 "C19": dict(level=MC, design="2/C19", technique="symbolic two-call histories on the real cached reader/writer closures with symbolic fault index and structural frame snapshots at every stream call",
   text="Inductive step from an arbitrary history: call 1 (symbolic instance; successful, OSError at the k-th write/read with k symbolic, or truncated source) then call 2 with an independent symbolic instance must yield the reference bytes and decode back exactly, and a structural snapshot of everything reachable from the cached closures and kio.serial module globals must be unchanged at every stream call and after each call. Construction determinism and non-interference of other classes are finite checks.",
   note="Thread schedules are NOT explored: claimed by reduction only (no shared state is written, construction is deterministic, functools.cache trusted). Bounds: one prior call (inductive), shapes to the recorded depth."),
 "C08": dict(level=MC, design="2/C08", technique="symbolic execution of codegen.header_schema on all integer keys/versions/flexibility ranges; z3 search over the extracted class-fact table; symbolic execution of kio.index inverse maps with hash-fork dict lookups",
   text="(i) the generator's header rule runs on solver variables for api key, version and flexibleVersions bounds and is compared with the Kafka rule stated in the property; (ii) the facts (type, key, version, flexible, header class) of all 646 payload classes are asserted in z3 and the solver searches for a row breaking the rule or a request/response pair differing in key or flexibility; (iii) load_response_from_request/load_request_from_response run with symbolic version (and symbolic key in the gaps between table keys) and must return the class found by an independent package walk, compose to the identity, and raise only the documented errors.",
   note="The shipped-class part is a finite table where the solver is only a search procedure. Dict lookups by symbolic integer use the hash-hint rule (A2). Non-int keys/versions are outside."),
 "C09": dict(level=MC, design="2/C09", technique="symbolic execution of the real kio.index lookup functions with symbolic version/key (hash-fork dict lookups) against an independent package walk; z3 search over the finite index tables",
   text="Every load_* function runs for every table key concretely and for every gap between table keys with a symbolic key, with the version symbolic over int16 and every EntityType member; each resolving path must return exactly the module/class found by walking the package directory, every other path must raise UnknownAPIKey iff the key is unknown, else UnknownEntity. Bijection of api_key_map, completeness and resolvability of schema_name_map are solver queries over the finite tables.",
   note="Names: all known plus six near-miss strings; arbitrary strings and non-int arguments are outside. Hash-hint rule (A2)."),
 "C13": dict(level="other", design="2/C13", technique="z3 queries over fact tables extracted from the imported schema classes (finite; solver as search) plus construction probes of reader/writer for every class",
   text="A finite configuration property: facts about all 1629 classes / 5094 fields are re-extracted from /repo on every run and each coherence rule (kafka_type vs declared Python type through a pinned table, nullability only with a wire null, tuple arrays, defaults inhabit the type, tag rules, resolvable defaults, derivable reader/writer) is decided by a z3 query 'exists row: rule broken'. Exhaustive over the finite table; the solver adds no reach beyond enumeration here, which is why the level is 'other' and not model checking.",
   note="Exhaustive over the shipped classes; agreement with upstream definitions is C04 (not applicable)."),
 "C14": dict(level="other", design="2/C14", technique="z3 queries over per-class, per-module, per-family and per-API fact tables extracted from the imported schema classes (finite; solver as search)",
   text="Finite configuration property: module/class facts of all 666 version modules are re-extracted on every run; rules (shared version/flexibility/key/header per module, path = api/version/type, snake-cased class name, contiguous versions, flexibility never reverts, key constant and unique, requests and responses for the same versions) are z3 queries over the tables. Exhaustive; solver = search.",
   note="The snake-case convention is restated independently in kv/props/c14.py."),
 "C15": dict(level="other", design="2/C15", technique="z3 queries over dataclass-parameter facts and concrete mutation/copy/pickle probes for every class; symbolic execution of the real generated __eq__ on two independent symbolic instances per class",
   text="Facts (frozen, eq, slots, kw_only, generated __hash__/__eq__, immutable annotations) and concrete probes for all 1633 classes as queries over the finite table, plus a symbolic lemma: the generated __eq__/__ne__ of each class runs on two independent symbolic instances and must agree with an independent field-wise equality term on every path; models with a == b are concretised and hashed on the real classes.",
   note="Hash consistency relies on the stdlib dataclass contract (frozen and eq => hash of the field tuple) and is confirmed on the concretised models only."),
 "C17": dict(level=MC, design="2/C17", technique="symbolic execution of the real write_new_batch/write_batch against an independent reference v2-batch encoder (z3 QF_UFBV, CRC-32C as an uninterpreted fold); timestamp derivations in Int/Real arithmetic with the IEEE standard model through recording stubs",
   text="The real batch writer runs on a symbolic NewRecordBatch (1..3 records, all scalar fields over full ranges, null/opaque keys, values and headers with symbolic lengths) and its byte sequence must equal the reference encoding item by item; the CRC field must equal the uninterpreted fold of exactly the bytes that follow it. Base/max timestamps and per-record deltas are decided for every microsecond instant in integer/real arithmetic. One model per shape is replayed on the real writer and decoded by an independent concrete decoder.",
   note="Layout harness uses five representative instants per record (BV arithmetic on symbolic instants is intractable); the R-mode lemma covers every instant but replaces the integer codecs by recording stubs (those are decided in C11). CRC polynomial trusted (A6)."),
 "C18": dict(level=MC, design="2/C18", technique="symbolic execution of the real read_batch (and write_batch on its result) on reference-encoded batches over symbolic fields with CRC as an uninterpreted fold; symbolic single-byte corruption, magic byte and truncation on captured broker batches; record-timestamp conversion in Int/Real arithmetic",
   text="A1/A2: the reader runs on a wire-first batch (symbolic header fields, offsets, payload lengths; CRC = fold over the right span) and must return every field as encoded and re-serialise to the same bytes. A3: on 5 concrete valid batches a byte from the CRC field to the end is overwritten at a symbolic position with a symbolic value; with the per-byte step-injectivity facts the only feasible outcome must be an exception; any model is replayed with the real crc32c. A4/A5: symbolic magic != 2, every truncation point.",
   note="Known finding: the sub-second part of record timestamps is dropped (pinned by an existing test). Timestamps at representatives in the entity harness, whole domain of whole-second timestamps plus a millisecond window in the R-mode lemma. n <= 2 records; single corrupted byte; CRC-32C itself trusted (A6)."),
}

def cmd(i, tier):
    return f"./check {i} --tier {tier}"

checks = []
for i in ids:
    if i not in CHECKS:
        continue
    c = CHECKS[i]
    checks.append({
        "property_id": i, "quick_cmd": cmd(i, "quick"), "thorough_cmd": cmd(i, "thorough"),
        "evidence_file": f"/verif/evidence/{i}.json", "replay_cmd_template": "./check --replay {path}", "engine": "kv",
        "level_claimed": {"category": c["level"], "text": c["text"], "design_ref": c["design"]},
        "level_note": c["note"], "technique": c["technique"],
    })
NA = {
 "C04": "the pinned upstream Kafka 3.9.0 message definitions (schema/3.9.0/*.json, fetched from GitHub by codegen.fetch_schema) and the error-code list are not in the sandbox; the property is an equality of two concrete artefacts with no symbolic input, and what remains offline (regenerate-and-diff or a golden snapshot) is a different technique",
}
na = [{"property_id": i, "reason": NA.get(i, "check not built yet (build in progress)")} for i in ids if i not in CHECKS]
m = {
 "version": 1,
 "setup_cmd": "./setup.sh",
 "hooks": {"guard": "KIO_VERIF", "enable": "no hooks are compiled into /repo: every check imports kio from /repo's working tree and rebinds boundary references (struct, io, datetime, uuid, crc32c) to models inside its own process", "baseline_off_cmd": "cd /repo && /venv/bin/python -m pytest -ra -q -p no:cacheprovider --timeout=900 --continue-on-collection-errors", "source_commits": [], "add_only": True},
 "engines": [{"name": "kv", "path": "/verif/kv", "serves_properties": [c["property_id"] for c in checks], "kind_free_text": "symbolic execution of kio's real Python functions on proxy values over z3 (bit-vectors; integer/real standard-model for floats), replay-based DFS over decision prefixes, counterexamples replayed on the unmodified code"}],
 "checks": checks,
 "not_applicable": na,
 "notes": "exit codes: 0 held on everything explored; 1 VIOLATION (reproduced on the real code); 2 inconclusive (engine could not follow the code, solver unknown, or a counterexample did not reproduce). known findings: /verif/known_findings.json",
}
json.dump(m, open(os.path.join(HERE, "MANIFEST.json"), "w"), indent=1)
print("checks:", [c["property_id"] for c in checks], "n/a:", [x["property_id"] for x in na])
