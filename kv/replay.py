"""kv.replay - concrete replay of counterexamples against the REAL kio (no models are
installed in this process).  `python -m kv.replay --batch file.json` prints a JSON list of
{reproduced, sig, detail}; `python -m kv.replay file.json` replays one stored violation."""
from __future__ import annotations

import dataclasses
import io
import json
import sys
import traceback


def _load_instance(w):
    from . import shapes

    return shapes.from_jsonable(w["instance"])


def _first_diff(a, b, path="x"):
    """-> (path, kafka_type, repr a, repr b) of the first differing leaf"""
    if dataclasses.is_dataclass(a) and type(a) is type(b):
        for f in dataclasses.fields(a):
            va, vb = getattr(a, f.name), getattr(b, f.name)
            if va != vb:
                d = _first_diff(va, vb, f"{path}.{f.name}")
                if d[1] is None:
                    d = (d[0], f.metadata.get("kafka_type"), d[2], d[3])
                return d
    if isinstance(a, tuple) and isinstance(b, tuple) and len(a) == len(b):
        for i, (va, vb) in enumerate(zip(a, b)):
            if va != vb:
                return _first_diff(va, vb, f"{path}[{i}]")
    return (path, None, repr(a)[:80], repr(b)[:80])


def _exc_sig(e):
    tb = traceback.extract_tb(e.__traceback__)
    site = None
    for fr in reversed(tb):
        if "/kio/" in fr.filename:
            site = f"{fr.filename.split('/kio/')[-1]}:{fr.name}"
            break
    return {"exception": type(e).__name__, "site": site}


def _encode(cls, inst):
    from kio.serial import entity_writer

    buf = io.BytesIO()
    entity_writer(cls)(buf, inst)
    return buf.getvalue()


def replay_C01(w, clause):
    from kio.serial import entity_reader
    from kio.serial.errors import OutOfBoundValue

    from . import shapes

    inst = _load_instance(w)
    cls = type(inst)
    try:
        data = _encode(cls, inst)
    except OutOfBoundValue as e:
        return {"reproduced": clause == "refusal_only_when_unrepresentable", "sig": {"kind": "refused", **_exc_sig(e)}, "detail": f"writer refused: {e}"}
    except Exception as e:
        return {"reproduced": True, "sig": {"kind": "writer_raises", **_exc_sig(e)}, "detail": f"writer raised {type(e).__name__}: {e}"}
    tail = bytes(w.get("tail", [0, 0]))
    buf = io.BytesIO(data + tail)
    try:
        out = entity_reader(cls)(buf)
    except Exception as e:
        return {"reproduced": True, "sig": {"kind": "reader_raises", **_exc_sig(e)}, "detail": f"reader raised {type(e).__name__}: {e} on its own writer's output {data[:64].hex()}"}
    if out != inst:
        p, kt, ra, rb = _first_diff(inst, out)
        return {"reproduced": True, "sig": {"kind": "roundtrip_mismatch", "kafka_type": kt},
                "detail": f"{shapes.class_id(cls)} {p}: wrote {ra}, read back {rb}"}
    if buf.tell() != len(data):
        return {"reproduced": True, "sig": {"kind": "consumption"}, "detail": f"consumed {buf.tell()} of {len(data)} encoded bytes"}
    return {"reproduced": False, "detail": "round trip equal and exact on the real code"}


def replay_C02(w, clause):
    from kio.serial.errors import OutOfBoundValue

    from . import kref, shapes

    inst = _load_instance(w)
    cls = type(inst)
    lim = []
    ref = bytes(kref.encode(inst, limits=lim))
    try:
        data = _encode(cls, inst)
    except OutOfBoundValue as e:
        return {"reproduced": not lim, "sig": {"kind": "refused"}, "detail": f"writer refused: {e}"}
    except Exception as e:
        return {"reproduced": True, "sig": {"kind": "writer_raises", **_exc_sig(e)}, "detail": f"writer raised {type(e).__name__}: {e}"}
    if lim:
        return {"reproduced": True, "sig": {"kind": "wrote_unrepresentable"}, "detail": "writer emitted bytes for a length its prefix cannot hold"}
    if data != ref:
        k = next((i for i in range(min(len(data), len(ref))) if data[i] != ref[i]), min(len(data), len(ref)))
        return {"reproduced": True, "sig": {"kind": "bytes_differ"},
                "detail": f"{shapes.class_id(cls)}: first difference at byte {k}: kio {data[max(0,k-4):k+8].hex()} reference {ref[max(0,k-4):k+8].hex()} (lengths {len(data)}/{len(ref)})"}
    return {"reproduced": False, "detail": "bytes equal the reference on the real code"}


def replay_C06(w, clause):
    from kio.serial import entity_reader
    from kio.serial.errors import BufferUnderflow, OutOfBoundValue

    inst = _load_instance(w)
    cls = type(inst)
    try:
        data = _encode(cls, inst)
    except OutOfBoundValue as e:
        return {"reproduced": False, "detail": "writer refused"}
    k = int(w["cut"])
    if not (0 <= k < len(data)):
        return {"reproduced": False, "detail": f"cut {k} not a strict prefix of {len(data)} bytes"}
    try:
        out = entity_reader(cls)(io.BytesIO(data[:k]))
    except BufferUnderflow:
        return {"reproduced": False, "detail": "BufferUnderflow as required"}
    except Exception as e:
        return {"reproduced": True, "sig": {"kind": "wrong_exception", **_exc_sig(e)}, "detail": f"prefix of {k}/{len(data)} bytes raised {type(e).__name__}: {e}"}
    return {"reproduced": True, "sig": {"kind": "returned_value"}, "detail": f"prefix of {k}/{len(data)} bytes decoded to {out!r}"[:300]}


def dispatch(rec):
    prop = rec["prop"]
    if isinstance(rec.get("witness"), dict) and "lemma" in rec["witness"]:
        from . import lemma

        try:
            return lemma.replay_lemma(rec["witness"], rec.get("clause"))
        except Exception as e:
            return {"reproduced": None, "error": f"{type(e).__name__}: {e}\n{traceback.format_exc()[-1500:]}"}
    fn = globals().get("replay_" + prop)
    if fn is None:
        import importlib

        for modname in ("kv.replay2",):
            try:
                mod = importlib.import_module(modname)
            except ImportError:
                continue
            fn = getattr(mod, "replay_" + prop, None)
            if fn:
                break
    if fn is None:
        return {"reproduced": None, "error": f"no replay function for {prop}"}
    try:
        return fn(rec["witness"], rec.get("clause"))
    except Exception as e:
        return {"reproduced": None, "error": f"{type(e).__name__}: {e}\n{traceback.format_exc()[-1500:]}"}


def main(argv):
    if len(argv) >= 2 and argv[0] == "--batch":
        with open(argv[1]) as fh:
            recs = json.load(fh)
        print(json.dumps([dispatch(r) for r in recs]))
        return 0
    with open(argv[0]) as fh:
        rec = json.load(fh)
    r = dispatch(rec)
    print(json.dumps(r, indent=1))
    return 1 if r.get("reproduced") else 0


if __name__ == "__main__":
    sys.exit(main(sys.argv[1:]))
