"""kv.runner - process pool, replay of counterexamples in a clean process, known-finding
matching, evidence files and exit codes shared by all checks."""
from __future__ import annotations

import json
import multiprocessing as mp
import os
import subprocess
import sys
import time

VERIF = os.path.dirname(os.path.dirname(os.path.abspath(__file__)))
EVIDENCE_DIR = os.path.join(VERIF, "evidence")
REPLAY_DIR = os.path.join(VERIF, "replays")
KNOWN = os.path.join(VERIF, "known_findings.json")

EXIT_OK, EXIT_VIOLATION, EXIT_INCONCLUSIVE = 0, 1, 2
# the tree under test: always /repo for the registered commands; KIO_REPO lets the seeded-change tooling
# point the same checks at a scratch copy (tools/try_seed_copy.sh) without touching /repo
REPO = os.environ.get("KIO_REPO", "/repo")
if REPO != "/repo":
    # never let a run against a scratch copy overwrite the evidence of /repo
    EVIDENCE_DIR = os.path.join("/tmp/kv_seed", os.path.basename(REPO), "evidence")
    REPLAY_DIR = os.path.join("/tmp/kv_seed", os.path.basename(REPO), "replays")

ASSUMPTIONS = {
    "A1": "A1 boundary models of struct, io.BytesIO, datetime, uuid, math.isfinite agree with CPython 3.12 (differentially validated by `./check selftest` and at the start of each run)",
    "A2": "A2 dict/set lookups by a symbolic integer only hit tables whose integer keys are inside the hint set of the harness",
    "A3": "A3 UTF-8 encode/decode are mutually inverse on valid strings; payload content does not influence control flow (violations surface as Unsupported)",
    "A4": "A4 struct '>d' is the IEEE-754 bit bijection",
    "A5": "A5 IEEE standard model (correctly rounded ops, |err| <= 2^-53 |exact|, no overflow/underflow in the stated ranges) for R-mode lemmas",
    "A5q": "A5q at entity level kio's float time arithmetic is abstracted as exact rational arithmetic; its float behaviour is decided separately by the R-mode lemmas of C05/C11/C12/C17",
    "A6": "A6 crc32c is CRC-32C; the per-byte step is injective in each argument (uninterpreted fold)",
    "A7": "A7 stdlib dataclasses, functools.cache, enum behave as documented",
    "A8": "A8 z3 5.1 is correct; `unknown` is never read as `unsat`",
}


def seed():
    try:
        return int(os.environ.get("VERIF_SEED", "0"))
    except ValueError:
        return 0


def nproc():
    try:
        return max(1, int(os.environ.get("VERIF_NPROC", "0")) or (os.cpu_count() or 4))
    except ValueError:
        return os.cpu_count() or 4


class _Guarded:
    """A task wrapper: a BaseException escaping a task (the engine's control-flow exceptions are BaseExceptions)
    would kill the pool worker and leave the parent waiting for ever; turn it into an ordinary error."""

    def __init__(self, task):
        self.task = task

    def __call__(self, item):
        try:
            return self.task(item)
        except Exception:
            raise
        except (KeyboardInterrupt, SystemExit):
            raise
        except BaseException as e:
            raise RuntimeError(f"task ended with {type(e).__name__}: {e}") from None


def pool_map(task, items, procs=None, progress=None):
    """Run task(item) for every item in forked workers; yields results as they finish."""
    procs = procs or nproc()
    items = list(items)
    task = _Guarded(task)
    if procs <= 1 or len(items) <= 1:
        for it in items:
            yield task(it)
        return
    ctx = mp.get_context("fork")
    with ctx.Pool(min(procs, len(items)), maxtasksperchild=200) as pool:
        for k, r in enumerate(pool.imap_unordered(task, items, chunksize=1)):
            if progress and (k + 1) % progress == 0:
                print(f"  .. {k + 1}/{len(items)}", file=sys.stderr, flush=True)
            yield r


# ---- known findings ----------------------------------------------------------------------
def load_known():
    try:
        with open(KNOWN) as fh:
            d = json.load(fh)
    except FileNotFoundError:
        return []
    return d.get("findings", [])


def match_known(prop, sig, known):
    for k in known:
        if k.get("property") != prop:
            continue
        m = k.get("match", {})
        if all(sig.get(a) == b for a, b in m.items()):
            return k
    return None


# ---- replay ------------------------------------------------------------------------------
def replay_batch(records, timeout=600):
    """records: list of {prop, clause, witness}.  Runs them in a fresh interpreter that
    imports only the real kio (no models installed).  -> list of result dicts."""
    if not records:
        return []
    os.makedirs(REPLAY_DIR, exist_ok=True)
    path = os.path.join(REPLAY_DIR, f".batch-{os.getpid()}-{int(time.time() * 1000)}.json")
    with open(path, "w") as fh:
        json.dump(records, fh)
    try:
        p = subprocess.run([sys.executable, "-m", "kv.replay", "--batch", path], cwd=VERIF, capture_output=True,
                           text=True, timeout=timeout)
        if p.returncode != 0:
            return [{"reproduced": None, "error": f"replay process failed: {p.stderr[-2000:]}"} for _ in records]
        return json.loads(p.stdout)
    finally:
        try:
            os.remove(path)
        except OSError:
            pass


def finish(prop, tier, t0, *, level, coverage, assumptions, cex, inconclusive, samples=None, extra=None):
    """Common tail of every check: replay counterexamples, match known findings, print the
    verdict lines, write the evidence file, return the exit code.

    cex: list of {clause, witness, info} (witness None = over the keep limit, not replayed)
    inconclusive: list of strings (reasons the run cannot be trusted as a pass)
    """
    known = load_known()
    to_replay = [c for c in cex if c.get("witness") is not None and "error" not in (c["witness"] or {})]
    results = replay_batch([{"prop": prop, "clause": c["clause"], "witness": c["witness"]} for c in to_replay])
    violations = []
    known_hits = {}
    not_reproduced = 0
    seen_sigs = set()
    reproduced_clauses = {c["clause"] for c, r in zip(to_replay, results) if r.get("reproduced")}
    for c, r in zip(to_replay, results):
        if r.get("reproduced") is None:
            if c["clause"] not in reproduced_clauses:
                inconclusive.append("replay error: " + str(r.get("error"))[:300])
            continue
        if not r["reproduced"]:
            not_reproduced += 1
            if c["clause"] not in reproduced_clauses:
                inconclusive.append(f"counterexample for clause {c['clause']} did not reproduce on the real code: {r.get('detail', '')[:200]}")
            continue
        sig = r.get("sig", {})
        sig.setdefault("clause", c["clause"])
        k = match_known(prop, sig, known)
        if k is not None:
            known_hits.setdefault(k["id"], [k, 0])[1] += 1
            continue
        key = json.dumps(sig, sort_keys=True)
        if key in seen_sigs:
            continue
        seen_sigs.add(key)
        violations.append({"clause": c["clause"], "sig": sig, "detail": r.get("detail"), "witness": c["witness"]})
    unreplayed = [c for c in cex if c.get("witness") is None or "error" in (c.get("witness") or {})]
    if unreplayed and not violations and not known_hits:
        inconclusive.append(f"{len(unreplayed)} counterexample(s) could not be concretised for replay")
    for kid, (k, n) in known_hits.items():
        print(f"KNOWN-FINDING: property={prop} {k['id']}: {k['what']} ({n} counterexample(s) reproduce it)")
    os.makedirs(os.path.join(REPLAY_DIR, prop), exist_ok=True)
    for n, v in enumerate(violations[:20]):
        path = os.path.join(REPLAY_DIR, prop, f"{n}.json")
        with open(path, "w") as fh:
            json.dump({"prop": prop, "clause": v["clause"], "witness": v["witness"], "sig": v["sig"], "detail": v["detail"]}, fh, indent=1)
        print(f"VIOLATION property={prop} replay={path}")
        print(f"  clause={v['clause']} {json.dumps(v['sig'])} :: {str(v['detail'])[:300]}")
    wall = time.time() - t0
    coverage = dict(coverage)
    coverage.setdefault("samples", samples or [])
    if not coverage["samples"]:
        coverage["samples"] = ["(no sample recorded)"]
    coverage["counterexamples"] = len(cex)
    coverage["counterexamples_replayed"] = len(to_replay)
    coverage["counterexamples_not_reproduced"] = not_reproduced
    coverage["known_findings_hit"] = {k: n for k, (_, n) in known_hits.items()}
    coverage["inconclusive"] = inconclusive[:20]
    coverage["traces_validated_against_impl"] = coverage.get("traces_validated_against_impl", 0) + len(to_replay)
    if extra:
        coverage.update(extra)
    ev = {
        "property_id": prop, "tier": tier, "seed": seed(), "level": level, "coverage": coverage,
        "assumptions": [ASSUMPTIONS.get(a, a) for a in assumptions], "wall_s": round(wall, 2),
        "violations": len(violations),
    }
    os.makedirs(EVIDENCE_DIR, exist_ok=True)
    with open(os.path.join(EVIDENCE_DIR, f"{prop}.json"), "w") as fh:
        json.dump(ev, fh, indent=1, default=str)
    if violations:
        return EXIT_VIOLATION
    if inconclusive:
        for m in inconclusive[:10]:
            print(f"INCONCLUSIVE property={prop}: {m}")
        return EXIT_INCONCLUSIVE
    print(f"OK property={prop} tier={tier} wall={wall:.1f}s")
    return EXIT_OK


def mc_coverage(stats, *, functions, bounds, outside, rule, classes=None, extra=None):
    """coverage block for model_checking-level evidence from merged Stats"""
    cov = {
        "states": stats.paths,
        "transitions": stats.queries,
        "traces_validated_against_impl": 0,
        "evaluations": stats.paths,
        "rule": rule,
        "functions_encoded": functions,
        "bounds": bounds,
        "outside_bounds": outside,
        "queries": {"total": stats.queries, "sat": stats.q_sat, "unsat": stats.q_unsat, "unknown": stats.unknown},
        "solver_s": round(stats.solver_s, 2),
        "clauses": {k: {"paths_reached": v[0], "paths_proved": v[1]} for k, v in stats.clauses.items()},
        "path_outcomes": stats.outcomes,
        "paths_aborted_infeasible": stats.aborted,
        "paths_unsupported": stats.unsupported,
        "unsupported_msgs": stats.unsupported_msgs,
        "path_cap_hit": stats.capped,
        "unexplored_prefixes": stats.remaining,
        "reachability_twin": {"completed_feasible_paths": stats.paths, "violated_as_required": stats.paths > 0},
    }
    if classes is not None:
        cov["classes"] = classes
    if extra:
        cov.update(extra)
    return cov
