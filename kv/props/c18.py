"""C18 - reading a record batch is faithful and rejects damaged data.

Wire-first: the reference encoder kv.kref.full_batch_items emits a magic-2 batch over
symbolic header fields and records (CRC = uninterpreted fold over exactly the bytes after
the CRC field); the real read_batch runs on it.
  A1  header fields, offsets, keys, values, headers are returned exactly as encoded;
      record timestamps to the millisecond;
  A2  write_batch(read_batch(b)) == b;
  A3  one corrupted byte anywhere from the CRC field to the end => read_batch raises
      (symbolic position and value; with the per-byte step-injectivity facts of CRC-32C;
      every solver model is replayed on the real code with the real crc32c);
  A4  magic != 2 => ValueError;
  A5  any truncation => an exception (the class is not asserted: kio uses non-exact reads here).
The four captured broker batches of tests/records/fixtures.py are included as constants."""
from __future__ import annotations

import os
import sys
import time

import z3

from .. import kref, shapes
from ..core import Stats, Unsupported, Violation, explore
from ..models import DT, TZ, Sink, Src, crc_model
from ..sym import Blob, SymBool, SymBytes, SymInt, byte_of, byte_term, sym_var
from . import reclib

MAX_MS = 253402300799999


def tier_opts(tier):
    if tier == "quick":
        return dict(ns=[0, 1, 2], max_shapes=14, max_dev=1, per_shape_paths=40, seconds=90, regions=reclib.REGIONS[:1], max_headers=1)
    return dict(ns=[0, 1, 2], max_shapes=150, max_dev=2, per_shape_paths=80, seconds=420, regions=reclib.REGIONS[:2], max_headers=2)


def build_wire_batch(b: shapes.Builder, n, *, regions, max_headers, whole_seconds):
    # timestamps at representatives (shape variables): their whole domain is decided by the
    # integer/real lemma `read_record_timestamp` below
    base_reps = [1500000000000, 0, 253400153315000] if whole_seconds else [1500000000123, 0, 999, MAX_MS - 2**31]
    delta_reps = [0, 2000, 2147483000] if whole_seconds else [0, 2500, 1, 2**31 - 1]
    base_ts = base_reps[b.alt("base_timestamp#t", len(base_reps))]
    recs = []
    for j in range(n):
        p = f"r{j}"
        nh_alts = list(range(max_headers + 1)) + ([reclib.MANY_HEADERS] if j == 0 else [])
        nh = nh_alts[b.alt(p + "#headers", len(nh_alts))]
        if nh == reclib.MANY_HEADERS:
            # the header count crosses the one-byte zig-zag varint boundary (63 | 64); the headers themselves are tiny and concrete
            hdrs = [(b"k", None if i % 2 else b"v") for i in range(nh)]
        else:
            hdrs = [(reclib.payload(b, f"{p}.h{i}.key", regions), reclib.payload(b, f"{p}.h{i}.value", regions)) for i in range(nh)]
        recs.append(dict(attributes=b._int(p + ".attributes", -128, 127), timestamp_delta=delta_reps[b.alt(p + ".ts_delta#t", len(delta_reps))],
                         offset_delta=b._int(p + ".offset_delta", -(2**31), 2**31 - 1), key=reclib.payload(b, p + ".key", regions),
                         value=reclib.payload(b, p + ".value", regions), headers=hdrs))
    d = dict(base_offset=b._int("base_offset", -(2**62), 2**62), partition_leader_epoch=b._int("partition_leader_epoch", -(2**31), 2**31 - 1),
             attributes=b._int("attributes", -(2**15), 2**15 - 1), last_offset_delta=b._int("last_offset_delta", -(2**31), 2**31 - 1), base_timestamp=base_ts,
             max_timestamp=b._int("max_timestamp", 0, 2**62), producer_id=b._int("producer_id", -(2**63), 2**63 - 1),
             producer_epoch=b._int("producer_epoch", -(2**15), 2**15 - 1), base_sequence=b._int("base_sequence", -(2**31), 2**31 - 1), records=recs)
    if b.c is not None:
        for r in recs:
            b.c.assume(d["max_timestamp"] >= base_ts + r["timestamp_delta"])  # well-formed: no record is later than the batch maximum
    return d


def _eq(a, b):
    r = (a == b)
    return r if type(r) is bool else r.e


def _and(ts):
    out = []
    for t in ts:
        if type(t) is bool:
            if not t:
                return False
        else:
            out.append(t)
    return z3.And(*out) if out else True


class Faithful:
    def __init__(self, n, shape, opts, whole_seconds):
        self.n, self.shape, self.opts, self.whole = n, shape, opts, whole_seconds

    def build(self, b):
        return build_wire_batch(b, self.n, regions=self.opts["regions"], max_headers=self.opts["max_headers"], whole_seconds=self.whole)

    def run(self, c):
        import kio.records.readers as R
        import kio.records.writers as W

        b = shapes.Builder(c, self.shape)
        d = self.build(b)
        c.notes["builder"] = b
        items, post = kref.full_batch_items(d, crc_fn=lambda it: crc_model(SymBytes(it)))
        tail = [byte_of(z3.BitVec("tail0", 8))]
        c.notes["wire_items"] = list(items)
        src = Src(SymBytes(items + tail))
        try:
            rb = R.read_batch(src)
        except Unsupported:
            raise
        except Exception as e:
            raise Violation("reads_every_well_formed_batch", {"exception": type(e).__name__, "msg": str(e)[:200]})
        c.outcome = "read"
        hdr = [_eq(getattr(rb, k), d[k]) for k in ("base_offset", "partition_leader_epoch", "attributes", "last_offset_delta", "base_timestamp", "max_timestamp",
                                                   "producer_id", "producer_epoch", "base_sequence")]
        hdr.append(len(rb.records) == len(d["records"]))
        n_post = SymBytes(post).sym_len()
        hdr.append(_eq(rb.batch_length, n_post + 9))
        recs_ok, secs_ok, ms_ok = [], [], []
        for r, e in zip(rb.records, d["records"]):
            recs_ok += [_eq(r.attributes, e["attributes"]), _eq(r.offset, d["base_offset"] + e["offset_delta"]), _payload_eq(r.key, e["key"]), _payload_eq(r.value, e["value"]),
                        len(r.headers) == len(e["headers"])]
            for h, (k, v) in zip(r.headers, e["headers"]):
                recs_ok += [_payload_eq(h.key, k), _payload_eq(h.value, v)]
            ms = d["base_timestamp"] + e["timestamp_delta"]
            ts = r.timestamp
            tsecs, tmicro = (ts.secs, ts.micro) if type(ts) is DT else _real_dt_parts(ts)
            secs_ok.append(tsecs == ms // 1000)
            ms_ok.append(tsecs * 1000 + tmicro // 1000 == ms and tmicro % 1000 == 0)
        cons, _ = kref.items_equal(src.remaining().items, tail)
        obl = [("A1_header_fields_as_encoded", _and(hdr)), ("A1_offsets_keys_values_headers_as_encoded", _and(recs_ok)),
               ("A1_record_timestamps_whole_second_part", _and(secs_ok)), ("A1_record_timestamps_to_the_millisecond", _and(ms_ok)),
               ("reads_exactly_one_batch", cons)]
        # A2: write the returned batch back
        sink = Sink()
        try:
            W.write_batch(sink, rb)
        except Unsupported:
            raise
        except Exception as e:
            raise Violation("A2_returned_batch_can_be_written", {"exception": type(e).__name__, "msg": str(e)[:200]})
        same, why = kref.items_equal(sink.items, items)
        if why:
            c.notes["violation_info"] = {"mismatch": why}
        obl.append(("A2_rewrite_reproduces_bytes", same))
        return obl

    def witness(self, c, model, clause, info):
        b = c.notes["builder"]
        m = shapes.prefer_small(c, b.leaves, extra=c.notes.get("neg_clause")) or model
        data = shapes.concretise(SymBytes(c.notes["wire_items"]), m)
        return {"bytes": fix_crc(data).hex(), "kind": "faithful", "clause": clause}


def _real_dt_parts(ts):
    d = ts - reclib.EPOCH
    return d.days * 86400 + d.seconds, d.microseconds


def _payload_eq(a, b):
    if a is None or b is None:
        return a is b
    r = (SymBytes.of(a) == SymBytes.of(b)) if not (isinstance(a, bytes) and isinstance(b, bytes)) else (a == b)
    return r if type(r) is bool else r.e


def fix_crc(data: bytes) -> bytes:
    """the CRC field of a concretised symbolic batch is an uninterpreted value: recompute it"""
    import crc32c

    if len(data) < 21:
        return data
    return data[:17] + crc32c.crc32c(data[21:]).to_bytes(4, "big") + data[21:]


def fixtures():
    _REPO = __import__("os").environ.get("KIO_REPO", "/repo")
    sys.path.insert(0, _REPO) if _REPO not in sys.path else None
    from tests.records import fixtures as fx

    out = []
    for chunk in fx.record_batch_data_v2:
        data = bytes(chunk)
        pos = 0
        while pos + 12 <= len(data):
            ln = int.from_bytes(data[pos + 8:pos + 12], "big", signed=True)
            out.append(data[pos:pos + 12 + ln])
            pos += 12 + ln
    return out


class Damage:
    """A3/A4/A5 on a concrete valid batch with a symbolic corruption"""

    def __init__(self, data: bytes, mode):
        self.data, self.mode = data, mode

    def run(self, c):
        import kio.records.readers as R

        raw = list(self.data)
        c.notes["raw"] = raw
        if self.mode == "corrupt":
            # the stored CRC is replaced by the uninterpreted fold of the original body, then one byte from the CRC field on is overwritten
            p, _ = sym_var("pos", 17, len(raw) - 1)
            nv = z3.BitVec("val", 8)
            sym_body = [byte_of(z3.BitVec(f"orig{i}", 8)) for i in range(21, len(raw))]
            for i, sb in zip(range(21, len(raw)), sym_body):
                c.add(byte_term(sb) == raw[i])  # named symbolic bytes pinned to the fixture (keeps the fold symbolic)
            crc = crc_model(SymBytes(sym_body))
            crc_bytes = list(crc.to_bytes(4, "big").items)
            full = raw[:17] + crc_bytes + sym_body
            data = list(full)
            diffs = []
            for i in range(17, len(full)):
                o = byte_term(full[i])
                hit = p.e == i
                data[i] = byte_of(z3.If(hit, nv, o))
                diffs.append(z3.And(hit, nv != o))
            c.add(z3.Or(*diffs))
            c.notes["pv"] = (p, nv)
            src = Src(SymBytes(data))
        elif self.mode == "magic":
            mg = z3.BitVec("magic", 8)
            c.add(mg != 2)
            c.notes["magic"] = mg
            src = Src(SymBytes(raw[:16] + [byte_of(mg)] + raw[17:]))
        else:
            src = Src(SymBytes(raw), cut=True)
            c.notes["src"] = src
        try:
            R.read_batch(src)
        except Unsupported:
            raise
        except ValueError as e:
            c.outcome = "ValueError"
            return [(self.clause(), True)]
        except Exception as e:
            c.outcome = type(e).__name__
            if self.mode == "magic":
                raise Violation(self.clause(), {"exception": type(e).__name__})
            return [(self.clause(), True)]
        if self.mode == "cut" and c.notes["src"].cut_at is None:
            c.outcome = "complete"
            return []
        c.outcome = "returned"
        raise Violation(self.clause(), {"returned": True})

    def clause(self):
        return {"corrupt": "A3_corrupted_byte_is_detected", "magic": "A4_wrong_magic_is_ValueError", "cut": "A5_truncation_raises"}[self.mode]

    def witness(self, c, model, clause, info):
        w = {"kind": self.mode, "bytes": bytes(self.data).hex()}
        if self.mode == "corrupt":
            p, nv = c.notes["pv"]
            w["pos"] = model.eval(p.e, model_completion=True).as_long()
            w["val"] = model.eval(nv, model_completion=True).as_long()
        elif self.mode == "magic":
            w["magic"] = model.eval(c.notes["magic"], model_completion=True).as_long()
        else:
            w["cut"] = shapes.concretise(c.notes["src"].cut_at, model)
        return w


def lemma_read_record_timestamp(I):
    """read_record on every (base timestamp, delta): the record timestamp is exactly
    base + delta milliseconds.  The integer readers of kio.records.readers are replaced by
    stubs that hand out the planned field values (assume-guarantee cut: the codecs are C11)."""
    import io

    import kio.records.readers as R

    dom = I.choose("domain", ["whole_seconds_full_range", "milliseconds_small_window"])
    if dom == "whole_seconds_full_range":
        base = I.int("base_seconds", 0, (MAX_MS - 2**31) // 1000) * 1000
        delta = I.int("delta_seconds", -(2**21), 2**21) * 1000
    else:
        # arbitrary milliseconds: float conversions make the wide-range query intractable (DESIGN 1.4);
        # a window that contains every millisecond residue is decided
        base = I.int("base_timestamp", 0, 5000)
        delta = I.int("delta", 0, 8)
    ms = base + delta
    I.assume(ms >= 0)
    plan = {"read_signed_varint": [0, 0, -1, -1, 0], "read_signed_varlong": [delta], "read_int8": [0]}
    saved = {k: getattr(R, k) for k in plan}
    saved["io"] = R.io

    class _IO:
        class BytesIO:
            def __init__(self, data=b""):
                pass

            def read(self, n=-1):
                return b""

            def __enter__(self):
                return self

            def __exit__(self, *a):
                return False

    try:
        for k, vals in plan.items():
            setattr(R, k, (lambda q: (lambda buffer: q.pop(0)))(list(vals)))
        R.io = _IO
        rec = R.read_record(_IO.BytesIO(), base, 0)
    finally:
        for k, f in saved.items():
            setattr(R, k, f)
    ts = rec.timestamp
    if I.symbolic:
        secs, micro = ts.secs, ts.micro
    else:
        secs, micro = _real_dt_parts(ts)
    I.check("record_timestamp_whole_second_part", secs == ms // 1000)
    I.check("record_timestamp_to_the_millisecond", I.all([secs * 1000 + micro // 1000 == ms, micro % 1000 == 0]))


LEMMAS = [("read_record_timestamp", (lemma_read_record_timestamp, {"rmode": True}))]


def task_faithful(args):
    n, whole, opts = args
    t0 = time.time()
    st = Stats()
    probe = Faithful(n, {}, opts, whole)
    nshapes = 0
    for shape, depth in shapes.shape_schedule(probe.build, opts["max_shapes"], opts["max_dev"]):
        if time.time() - t0 > opts["seconds"]:
            break
        explore(Faithful(n, shape, opts, whole), max_paths=opts["per_shape_paths"], stats=st, deadline=t0 + opts["seconds"])
        nshapes += 1
    return {"kind": "faithful", "n": n, "whole_seconds": whole, "stats": st.to_json(), "shapes": nshapes}


def task_damage(args):
    k, mode, data_hex = args
    st = Stats()
    h = Damage(bytes.fromhex(data_hex), mode)
    h.extra_models = 40 if mode == "corrupt" else 0
    if mode == "corrupt":
        h.block = lambda c, model: c.notes["pv"][0].e != model.eval(c.notes["pv"][0].e, model_completion=True)
    explore(h, max_paths=3000, stats=st, deadline=time.time() + 300, keep_cex=3)
    return {"kind": mode, "fixture": k, "stats": st.to_json()}


def sample_batches():
    """the captured broker batches plus two batches written by the reference encoder"""
    import crc32c

    out = list(fixtures())
    d = dict(base_offset=5, partition_leader_epoch=1, attributes=0, last_offset_delta=1, base_timestamp=1500000000123, max_timestamp=1500000009999, producer_id=7,
             producer_epoch=2, base_sequence=3, records=[dict(attributes=0, timestamp_delta=0, offset_delta=0, key=b"k", value=b"vv", headers=[(b"h", None)]),
                                                         dict(attributes=0, timestamp_delta=2500, offset_delta=1, key=None, value=b"", headers=[])])
    items, _ = kref.full_batch_items(d, crc_fn=lambda it: crc32c.crc32c(bytes(it)))
    out.append(bytes(items))
    return out


def check(tier):
    from .. import install, runner

    t0 = time.time()
    install.install()
    opts = tier_opts(tier)
    tasks = [("f", (n, whole, opts)) for n in opts["ns"] for whole in (True, False)]
    tasks.append(("l", ("kv.props.c18", "read_record_timestamp", True, {})))
    batches = sample_batches()
    for k, data in enumerate(batches):
        for mode in ("corrupt", "magic", "cut"):
            tasks.append(("d", (k, mode, data.hex())))
    total = Stats()
    rows = []
    inconclusive = []
    for r in runner.pool_map(_dispatch, tasks):
        st = Stats.from_json(r["stats"])
        total.merge(st)
        rows.append({k: v for k, v in r.items() if k != "stats"} | {"paths": st.paths, "outcomes": st.outcomes})
        if st.capped and r["kind"] != "faithful":
            inconclusive.append(f"{r['kind']} on fixture {r.get('fixture')} hit a cap")
    if total.unsupported:
        inconclusive.append(f"{total.unsupported} path(s) could not be followed: {list(total.unsupported_msgs.items())[:4]}")
    cov = runner.mc_coverage(
        total, functions=["kio.records.readers.read_batch/read_record/read_header/read_signed_compact_string_as_bytes_nullable", "kio.records.writers.write_batch/write_prepared_batch (A2)",
                          "kio.serial.readers.read_int*/read_uint32/read_signed_varint/read_signed_varlong"],
        bounds={"records": opts["ns"], "headers_per_record": "0..%d symbolic, and 64 tiny concrete ones on the first record" % opts["max_headers"], "payload_lengths": [list(r) for r in opts["regions"]],
                "header_fields": "full ranges; timestamps at representatives in the entity harness and over every base in [0, 9999-12-31) x delta in int32 in the integer/real lemma read_record_timestamp; max timestamp >= every record",
                "variants": "whole-second timestamps (all clauses must hold) and arbitrary millisecond timestamps", "damage": "%d concrete valid batches (4 captured broker batches + 1 reference-encoded) x (one overwritten byte with symbolic position from the CRC field to the end and symbolic value | symbolic magic != 2 | every truncation point)" % len(batches),
                "crc": "uninterpreted fold + per-byte step injectivity (A6); counterexamples are replayed with the real crc32c"},
        outside=["more than 2 records (0, 1 and 2 are covered)", "compressed record sets / control batches (attributes are carried opaquely)", "corruption of more than one byte", "multi-bit CRC collisions beyond single-byte changes (properties of the CRC-32C polynomial, trusted)",
                 "batches whose max_timestamp is below a record's timestamp, and negative timestamps: assumed away in the faithful-read harness - the property does not say whether such a header is well-formed, and "
                 "kio's reader has a validation for it (which compares the record's timestamp in SECONDS with max_timestamp in MILLISECONDS, so it only fires when max_timestamp[ms] < record timestamp[s])"],
        rule="one state = one completed symbolic path of read_batch (and write_batch) on one reference-encoded or captured batch",
        extra={"runs": rows, "captured_fixtures": len(batches) - 1})
    return runner.finish("C18", tier, t0, level="model_checking", coverage=cov, assumptions=["A1", "A5q", "A6", "A8"], cex=total.cex, inconclusive=inconclusive, samples=rows[:4])


def _dispatch(t):
    kind, args = t
    if kind == "l":
        from ..lemma import task_lemma

        r = task_lemma(args)
        r["kind"] = "lemma:" + r["lemma"]
        return r
    return task_faithful(args) if kind == "f" else task_damage(args)
