"""kv.install - rebind, inside this process only, every reference held by kio's modules to
a C-level boundary object (struct, io, datetime, uuid.UUID, math.isfinite, crc32c, the two
enum lookups) to its model, and inject shadows of len/range/isinstance/int as module
globals.  Nothing under /repo is edited; references are found by *identity*, so a refactor
that respells an import (`from struct import pack`) is followed."""
from __future__ import annotations

import datetime as _dt
import importlib
import operator as _operator
import io as _io
import math as _math
import struct as _struct
import sys
import types
import uuid as _uuid

from . import models as M
from . import sym as S

KIO_MODULES = [
    "kio.static._phantom", "kio.static.primitive", "kio.static.constants",
    "kio.serial.errors", "kio.serial.readers", "kio.serial.writers", "kio.serial._shared", "kio.serial._introspect",
    "kio.serial._implicit_defaults", "kio.serial._parse", "kio.serial._serialize", "kio.serial",
    "kio.records.schema", "kio.records.readers", "kio.records.writers", "kio.index",
]

_installed = {}


def _rebind_table():
    import crc32c as _crc

    from kio.schema.errors import ErrorCode
    from kio.serial._shared import NullableEntityMarker

    tab = {
        id(_struct): M.StructModel,
        id(_struct.pack): M.StructModel.pack,
        id(_struct.unpack): M.StructModel.unpack,
        id(_io): M.IOModel,
        id(_io.BytesIO): M.BytesIOModel,
        id(_dt): M.DatetimeModule,
        id(_dt.datetime): M.DT,
        id(_dt.timedelta): M.TD,
        id(_uuid.UUID): M.UUIDModel,
        id(_math): M.MathModel(),
        id(_math.isfinite): M.model_isfinite,
        id(_math.isnan): M.model_isnan,
        id(_operator): M.OperatorModel(),
        id(_operator.index): M.operator_index,
        id(_crc): M.CRCModule,
        id(_crc.crc32c): M.crc_model,
        id(ErrorCode): M.EnumModel(ErrorCode, symbolic_member=True),
        id(NullableEntityMarker): M.EnumModel(NullableEntityMarker),
    }
    keep = [_struct, _io, _dt, _uuid, _math, _crc, _operator, ErrorCode, NullableEntityMarker]
    return tab, keep


from . import bufmodels as B

class ShadowType:
    """Stands in for a builtin TYPE name (int, bytes, bytearray, memoryview) in a kio module: calling it
    goes to the proxy-aware function; everything else a module may do with the name - `int | None` in an
    annotation evaluated later, `int.from_bytes`, `bytes.fromhex`, isinstance/issubclass - behaves like the real type."""

    def __init__(self, real, fn, extra=None):
        self._real, self._fn, self._extra = real, fn, extra or {}
        S._MODEL_TO_REAL[id(self)] = real

    def __call__(self, *a, **k):
        return self._fn(*a, **k)

    def __or__(self, other):
        return self._real | other

    def __ror__(self, other):
        return other | self._real

    def __getattr__(self, name):
        if name in self._extra:
            return self._extra[name]
        return getattr(self._real, name)

    def __instancecheck__(self, obj):
        return S.sym_isinstance(obj, self._real)

    def __subclasscheck__(self, cls):
        return issubclass(cls, self._real)

    def __mro_entries__(self, bases):
        return (self._real,)

    def __hash__(self):
        return hash(self._real)

    def __eq__(self, other):
        return other is self or other is self._real

    def __repr__(self):
        return repr(self._real)


def _int_from_bytes(data, byteorder="big", *, signed=False):
    if type(data).__name__ == "Packed" and type(data).__module__ == "kv.rmode":
        # R-mode: the bytes struct.pack would produce for an integer, kept as (format, value)
        code = data.fmt[-1]
        if byteorder == "big" and data.fmt[0] in ">!" and code in "bhiqBHIQ" and bool(signed) == code.islower():
            return data.v
        raise M.Unsupported("int.from_bytes of R-mode bytes with a different width/signedness than packed")
    if type(data) is S.SymBytes or type(data).__module__ == "kv.bufmodels":
        return S.int_from_bytes(S.SymBytes.of(data).expanded(), byteorder, signed)
    return int.from_bytes(data, byteorder, signed=signed)


SHADOWS = {"len": S.sym_len, "range": S.sym_range, "isinstance": S.sym_isinstance,
           "int": ShadowType(int, S.sym_int, {"from_bytes": _int_from_bytes}),
           "bytearray": ShadowType(bytearray, B.sym_bytearray), "memoryview": ShadowType(memoryview, B.sym_memoryview),
           "bytes": ShadowType(bytes, S.sym_bytes)}
NO_SHADOWS = {"kio.records.schema", "kio.static.constants", "kio.serial.errors"}  # pure declarations: nothing to follow there


def install(extra_modules=()):
    """Idempotent.  Returns a report {module: [rebinding, ...]} for the evidence file."""
    if _installed:
        return _installed
    tab, keep = _rebind_table()
    _installed["__keep__"] = keep
    S.advertise_classes()
    names = list(KIO_MODULES) + list(extra_modules)
    # any further kio module already imported that is not a schema module
    for name in list(sys.modules):
        if name.startswith("kio.") and not name.startswith("kio.schema") and name not in names:
            names.append(name)
    for name in names:
        try:
            mod = importlib.import_module(name)
        except ImportError:
            continue
        rep = []
        g = mod.__dict__
        for k, v in list(g.items()):
            if k.startswith("__") and k.endswith("__"):
                continue
            m = tab.get(id(v))
            if m is None:
                m = _struct_model(v)  # a precompiled format object or one of its bound methods
            if m is None:
                m = _lru_model(v, tab)  # a memoised function: symbolic arguments cannot be hashed
            if m is None and type(v) in (dict, list):
                # a module-level table of precompiled formats / boundary functions (e.g. {width: Struct(...).unpack})
                items = list(v.items()) if type(v) is dict else list(enumerate(v))
                for kk, vv in items:
                    mm = tab.get(id(vv)) or _struct_model(vv)
                    if mm is not None:
                        v[kk] = mm
                        rep.append(f"{k}[{kk!r}]->{getattr(mm, '__name__', type(mm).__name__)}")
            if m is None and type(v) is bytearray:
                # a module-level scratch buffer: replace it by a model that can hold symbolic bytes
                m = B.ByteArrayModel(bytes(v))
            if m is not None:
                g[k] = m
                rep.append(f"{k}->{getattr(m, '__name__', type(m).__name__)}")
            elif isinstance(v, types.FunctionType) and v.__module__ == name:
                rep.extend(_rebind_closure(v, tab))
            elif isinstance(v, type) and v.__module__ == name:
                for ak, av in list(v.__dict__.items()):
                    m2 = tab.get(id(av))
                    if m2 is not None:
                        try:
                            setattr(v, ak, m2)
                            rep.append(f"{k}.{ak}->{getattr(m2, '__name__', type(m2).__name__)}")
                        except (AttributeError, TypeError):
                            pass
                    elif isinstance(av, types.FunctionType):
                        rep.extend(_rebind_closure(av, tab))
        if name not in NO_SHADOWS:
            for k, f in SHADOWS.items():
                g[k] = f
        _installed[name] = rep
    # validate the trusted base against the genuine CPython objects before anything is decided with it
    from . import selftest

    selftest.quick()  # raises SelfTestFailure -> the check ends inconclusive (exit 2), never as a verdict
    _installed["__selftest__"] = ["quick differential validation of struct/int/BytesIO/datetime models passed"]
    return _installed


_LRU_TYPE = type(__import__("functools").lru_cache(lambda: None))
_lru_models = {}


def _lru_model(v, tab):
    """-> the (shared) model for a functools.lru_cache/cache wrapper, else None"""
    if type(v) is not _LRU_TYPE:
        return None
    m = _lru_models.get(id(v))
    if m is None:
        fn = v.__wrapped__
        fn = tab.get(id(fn)) or _struct_model(fn) or fn
        m = M.LruModel(v, fn)
        _lru_models[id(v)] = m
    return m


def _struct_model(v):
    """-> model for a precompiled struct.Struct instance or for a bound pack/unpack method of one, else None"""
    if isinstance(v, _struct.Struct):
        return M.StructObjModel(v.format)
    if isinstance(v, types.BuiltinMethodType) and isinstance(getattr(v, "__self__", None), _struct.Struct) and v.__name__ in ("pack", "unpack", "unpack_from", "pack_into"):
        return getattr(M.StructObjModel(v.__self__.format), v.__name__)
    return None


def _rebind_closure(fn, tab):
    rep = []
    for i, cell in enumerate(fn.__closure__ or ()):
        try:
            v = cell.cell_contents
        except ValueError:
            continue
        m = tab.get(id(v)) or _struct_model(v) or _lru_model(v, tab)
        if m is not None:
            cell.cell_contents = m
            rep.append(f"{fn.__qualname__}.<cell{i}>->{getattr(m, '__name__', type(m).__name__)}")
    return rep


def source_hashes():
    """sha256 of the kio source files the checks execute (for the evidence files)."""
    import hashlib

    out = {}
    for name in KIO_MODULES:
        mod = sys.modules.get(name)
        f = getattr(mod, "__file__", None)
        if f and f.endswith(".py"):
            with open(f, "rb") as fh:
                out[name] = hashlib.sha256(fh.read()).hexdigest()[:16]
    return out
