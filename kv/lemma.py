"""kv.lemma - polymorphic lemmas: one Python function states a property of some real kio
functions in terms of an `I` object; with SymInputs the inputs are solver variables and
the clauses become solver obligations over every path; with ConcreteInputs (replay, in a
process where no model is installed) the same function runs the genuine CPython code on
the witness values and the clauses are plain booleans."""
from __future__ import annotations

import datetime
import importlib
import io
import struct
import time
import uuid

import z3

from . import sym as S
from .core import Ctx, PathAbort, Stats, Unsupported, Violation, explore


class Clauses(list):
    def check(self, name, cond):
        self.append((name, cond))


class SymInputs:
    """Symbolic mode (bit-vector family)."""

    symbolic = True
    rmode = False

    def __init__(self, c: Ctx):
        self.c = c
        self.vals = {}  # name -> proxy (for witness extraction)
        self.clauses = Clauses()

    # ---- inputs
    def int(self, name, lo, hi):
        v, _ = S.sym_var(name, lo, hi)
        self.vals[name] = v
        return v

    def byte(self, name):
        return self.int(name, 0, 255)

    def bytes_(self, name, n):
        return S.SymBytes([self.byte(f"{name}[{i}]") for i in range(n)])

    def bool(self, name):
        b = S.SymBool(z3.Bool(name))
        self.vals[name] = b
        return b

    def payload(self, name, lo, hi, kind="bytes"):
        n = self.int(name + "#len", lo, hi)
        b = S.SymBytes([S.Blob(n, kind, name=name)])
        v = S.SymStr(b) if kind == "str" else b
        self.vals[name] = v
        return v, n

    def f64(self, name):
        v = z3.BitVec(name, 64)
        f = S.SymFloat(v)
        self.vals[name] = f
        return f

    def uuid(self, name):
        v = z3.BitVec(name, 128)
        u = S.SymUUID(bytes=S.SymBytes([S.byte_of(z3.Extract(127 - 8 * i, 120 - 8 * i, v)) for i in range(16)]))
        self.vals[name] = u
        return u

    def error_code(self, name):
        from kio.schema.errors import ErrorCode

        vals = sorted(int(m.value) for m in ErrorCode)
        sv = self.int(name, vals[0], vals[-1])
        for k in range(vals[0], vals[-1] + 1):
            if k not in set(vals):
                self.c.add(sv.e != k)
        m = S.SymEnumMember(ErrorCode, sv)
        self.vals[name] = m
        return m

    def choose(self, name, options):
        k = self.c.choose(len(options), name)
        self.vals[name] = k
        return options[k]

    def assume(self, cond):
        self.c.assume(cond)

    # ---- streams
    def sink(self):
        from .models import Sink

        return Sink()

    def written(self, sink):
        return list(sink.items)

    def src(self, items):
        from .models import Src

        return Src(S.SymBytes(list(items)))

    def rest(self, src):
        return list(src.remaining().items)

    def same_bytes(self, a, b):
        from . import kref

        r, why = kref.items_equal(list(S.SymBytes.of(a).items) if not isinstance(a, list) else a,
                                  list(S.SymBytes.of(b).items) if not isinstance(b, list) else b)
        return r if type(r) is bool else S.SymBool(r)

    def check(self, name, cond):
        self.clauses.check(name, cond)

    def outcome(self, s):
        self.c.outcome = s

    def implies(self, a, b):
        ta = z3.BoolVal(a) if type(a) is bool else a.e
        tb = z3.BoolVal(b) if type(b) is bool else (b.e if hasattr(b, "e") else b)
        return S.SymBool(z3.Implies(ta, tb))

    def iff(self, a, b):
        ta = z3.BoolVal(a) if type(a) is bool else a.e
        tb = z3.BoolVal(b) if type(b) is bool else (b.e if hasattr(b, "e") else b)
        return S.SymBool(ta == tb)

    @staticmethod
    def _t(x):
        return z3.BoolVal(x) if type(x) is bool else x.e

    def all(self, xs):
        return S.SymBool(z3.And(*[self._t(x) for x in xs])) if xs else True

    def any(self, xs):
        return S.SymBool(z3.Or(*[self._t(x) for x in xs])) if xs else False

    def not_(self, x):
        return (not x) if type(x) is bool else S.SymBool(z3.Not(x.e))

    def ite(self, cond, a, b):
        if type(cond) is bool:
            return a if cond else b
        if self.rmode:
            from .rmode import RInt, _lift

            ae, _, al, ah = _lift(a)
            be_, _, bl, bh = _lift(b)
            return RInt(z3.If(cond.e, ae, be_), min(al, bl), max(ah, bh))
        ae, al, ah = S.lift3(a)
        be_, bl, bh = S.lift3(b)
        return S.mk(z3.If(cond.e, ae, be_), min(al, bl), max(ah, bh)) if not (al == ah == bl == bh) else a

    def is_none(self, x):
        return x is None

    def isinstance(self, v, T):
        return S.sym_isinstance(v, T)

    def finite(self, f):
        return f.isfinite()

    def truncate(self, T, dt):
        return T.truncate(dt)


class RInputs(SymInputs):
    """Symbolic mode, integer/real family (standard model of floats)."""

    rmode = True

    def int(self, name, lo, hi):
        from .rmode import RInt

        v = RInt.var(name, lo, hi)
        self.vals[name] = v
        return v

    def sink(self):
        from .rmode import RSink

        return RSink()

    def written(self, sink):
        return list(sink.items)

    def src(self, items):
        from .rmode import RSrc

        return RSrc(*items)

    def packed(self, fmt, v):
        from .rmode import Packed

        return Packed(fmt, v)

    def unpacked(self, item):
        """the integer a written item stands for"""
        from .rmode import Packed

        if isinstance(item, Packed):
            return item.v
        return int.from_bytes(bytes(item), "big", signed=True)

    def timedelta_us(self, us):
        from .models import TD

        return TD._from_us(us, check=False)

    def datetime_utc(self, secs, micro, offset_s=0):
        from .models import DT, TZ

        return DT._make(secs, micro, TZ(offset_s), check=None)


class FInputs(RInputs):
    """Symbolic mode, exact floating-point family (witness search only, see kv.fmode)."""

    fmode = True

    def int(self, name, lo, hi):
        from .fmode import FInt

        v = FInt.var(name, lo, hi)
        self.vals[name] = v
        return v

    def ite(self, cond, a, b):
        if type(cond) is bool:
            return a if cond else b
        from .fmode import FInt, _lift

        return FInt(z3.If(cond.e, _lift(a), _lift(b)))


class ConcreteInputs:
    """Replay mode: concrete witness values, real io.BytesIO, real kio."""

    symbolic = False
    rmode = False

    def __init__(self, values, rmode=False):
        self.values = values
        self.clauses = Clauses()
        self.rmode = rmode
        self.failed = []

    def _get(self, name, default=0):
        return self.values.get(name, default)

    def int(self, name, lo, hi):
        return int(self._get(name, lo))

    def byte(self, name):
        return int(self._get(name, 0))

    def bytes_(self, name, n):
        return bytes(self.byte(f"{name}[{i}]") for i in range(n))

    def bool(self, name):
        return bool(self._get(name, False))

    def payload(self, name, lo, hi, kind="bytes"):
        n = int(self._get(name + "#len", lo))
        if n > (1 << 26):
            raise TooLargeToReplay(n)
        v = ("s" * n) if kind == "str" else (b"B" * n)
        return v, n

    def f64(self, name):
        return struct.unpack(">d", int(self._get(name, 0)).to_bytes(8, "big"))[0]

    def uuid(self, name):
        return uuid.UUID(int=int(self._get(name, 1)))

    def error_code(self, name):
        from kio.schema.errors import ErrorCode

        return ErrorCode(int(self._get(name, 0)))

    def choose(self, name, options):
        return options[int(self._get(name, 0))]

    def assume(self, cond):
        if not cond:
            raise AssumptionFailed()

    def sink(self):
        return io.BytesIO()

    def written(self, sink):
        return list(sink.getvalue())

    def src(self, items):
        return io.BytesIO(bytes(items))

    def rest(self, src):
        return list(src.read())

    def same_bytes(self, a, b):
        return bytes(a) == bytes(b)

    def check(self, name, cond):
        self.clauses.check(name, bool(cond))

    def outcome(self, s):
        pass

    def implies(self, a, b):
        return (not a) or bool(b)

    def iff(self, a, b):
        return bool(a) == bool(b)

    def all(self, xs):
        return all(bool(x) for x in xs)

    def any(self, xs):
        return any(bool(x) for x in xs)

    def not_(self, x):
        return not x

    def ite(self, cond, a, b):
        return a if cond else b

    def isinstance(self, v, T):
        return isinstance(v, T)

    def finite(self, f):
        import math

        return math.isfinite(f)

    def truncate(self, T, dt):
        return T.truncate(dt)

    # R-mode helpers, concretely
    def packed(self, fmt, v):
        return struct.pack(fmt, v)

    def unpacked(self, item):
        if isinstance(item, list):
            item = bytes(item)
        return int.from_bytes(bytes(item), "big", signed=True)

    def timedelta_us(self, us):
        return datetime.timedelta(microseconds=us)

    def datetime_utc(self, secs, micro, offset_s=0):
        tz = datetime.timezone(datetime.timedelta(seconds=offset_s))
        return (datetime.datetime(1970, 1, 1, tzinfo=datetime.timezone.utc) + datetime.timedelta(seconds=secs, microseconds=micro)).astimezone(tz)


class TooLargeToReplay(Exception):
    pass


class AssumptionFailed(Exception):
    pass


class LemmaHarness:
    def __init__(self, module, name, fn, rmode=False):
        self.module = module
        self.name = name
        self.fn = fn
        self.rmode = rmode
        self.extra_models = 6 if rmode else 0

    def block(self, c, model):
        """a constraint excluding this model's integer inputs (and steering to other magnitudes)"""
        from .rmode import RInt

        I = c.notes["I"]
        diffs = []
        for k, v in I.vals.items():
            if type(v) is RInt:
                val = model.eval(v.e, model_completion=True)
                diffs.append(z3.Or(v.e > val * 2 + 1, v.e < val - abs(val.as_long()) // 2 - 1))
        return z3.Or(*diffs) if diffs else None

    def run(self, c):
        I = (RInputs if self.rmode else SymInputs)(c)
        c.notes["I"] = I
        try:
            self.fn(I)
        except (Unsupported, PathAbort):
            raise
        except Exception as e:
            # a lemma catches the exceptions its clauses allow; anything else escaping the real code is a violation
            raise Violation(f"{self.name}:no_unexpected_exception", {"exception": type(e).__name__, "msg": str(e)[:200]})
        return [(f"{self.name}:{n}", t) for n, t in I.clauses]

    def witness(self, c, model, clause, info):
        from .shapes import concretise

        I = c.notes["I"]
        vals = {}
        for k, v in I.vals.items():
            vals[k] = _conc(v, model)
        return {"module": self.module, "lemma": self.name, "rmode": self.rmode, "values": vals}


def fmode_witnesses(module, name, fn, clauses, budget_s=150):
    """Search concrete candidates for the given (failing) clauses of an R-mode lemma in exact
    floating-point arithmetic: z3 with a short limit, then the cvc5 binary.  -> list of witness dicts"""
    from . import fmode

    out = []
    t_end = time.time() + budget_s
    want = None if clauses is None else {c.split(":", 1)[-1] for c in clauses}  # None: every clause

    class H:
        def run(self, c):
            I = FInputs(c)
            c.notes["I"] = I
            fn(I)
            return [(n, t) for n, t in I.clauses]

        def witness(self, c, model, clause, info):
            return {}

    class LazyCtx(Ctx):
        """no feasibility queries while executing (exact FP feasibility is too slow for z3): both
        sides of every branch are scheduled, infeasible paths die at the final query"""

        def branch(self, cond):
            cond = z3.simplify(cond)
            if z3.is_true(cond):
                return True
            if z3.is_false(cond):
                return False
            if self.pos < len(self.prefix):
                take = self.prefix[self.pos]
            else:
                take = True
                self.pending.append(list(self.decisions) + [False])
            self.pos += 1
            self.decisions.append(take)
            self.solver.add(cond if take else z3.Not(cond))
            return take

    # walk the paths ourselves so that each obligation can be tried with both solvers
    work = [[]]
    seen = 0
    while work and time.time() < t_end and seen < 40:
        prefix = work.pop()
        c = LazyCtx(prefix, rlimit=30_000_000)
        Ctx.cur = c
        try:
            obl = H().run(c)
            seen += 1
            I = c.notes["I"]
            for cname, term in obl:
                if (want is not None and cname not in want) or time.time() > t_end:
                    continue
                t = z3.simplify(_as_term(term))
                if z3.is_true(t):
                    continue
                vals = None
                s2 = z3.Solver()
                s2.set("timeout", 8000)
                s2.add(*c.solver.assertions())
                s2.add(z3.Not(t))
                r = s2.check()
                if r == z3.sat:
                    m = s2.model()
                    vals = {k: _conc(v, m) for k, v in I.vals.items()}
                elif r == z3.unknown:
                    names = {}
                    for k, v in I.vals.items():
                        if type(v) is fmode.FInt and z3.is_const(v.e):
                            names[str(v.e)] = k
                    ext = fmode.solve_external(list(c.solver.assertions()) + [z3.Not(t)], list(names), tlimit_s=max(5, min(60, int(t_end - time.time()))))
                    if ext is not None:
                        vals = {k: v for k, v in I.vals.items() if type(v) is int}
                        vals.update({names[n]: val for n, val in ext.items()})
                if vals is not None:
                    out.append({"clause": f"{name}:{cname}", "witness": {"module": module, "lemma": name, "rmode": True, "values": vals},
                                "info": {"found_by": "F-mode (exact floating point) witness search"}})
        except (PathAbort, Unsupported, z3.Z3Exception):
            pass
        except Exception:
            pass  # an exception on a (probably infeasible) lazily explored path: not a witness
        finally:
            Ctx.cur = None
        work.extend(c.pending)
    return out


def candidate_search(module, name, fn, witnesses, max_runs=6000, max_witnesses=4):
    """After an R-mode `sat` (an over-approximation) look for a concrete input that really fails:
    the lemma is run on concrete candidates derived from the solver's models (neighbours, range
    limits, sweeps in steps of 10^k).  This only ever ADDS candidates for the concrete replay - a
    clause is never accepted as holding because this search found nothing."""
    ranges = {}

    class Rec(ConcreteInputs):
        def int(self, nm, lo, hi):
            ranges[nm] = (lo, hi)
            return super().int(nm, lo, hi)

    def run(values):
        I = Rec(values, rmode=True)
        try:
            fn(I)
        except (AssumptionFailed, TooLargeToReplay):
            return None
        except Exception as e:
            return ["raised:" + type(e).__name__]
        return [n for n, ok in I.clauses if not ok]

    out, runs, seen = [], 0, set()
    found = set()
    for w in witnesses[:max_witnesses]:
        base = dict(w["witness"]["values"])
        run(base)
        for nm, (lo, hi) in list(ranges.items()):
            v0 = base.get(nm, lo)
            cands = {v0 + d for d in range(-3, 4)} | {lo, lo + 1, hi, hi - 1}
            for k in range(0, 18):
                step = 10**k
                if step > hi - lo:
                    break
                cands |= {lo + i * step for i in range(0, 201)} | {v0 - v0 % step + i * step for i in range(-20, 21)}
            for v in sorted(c for c in cands if lo <= c <= hi):
                vals = dict(base)
                vals[nm] = v
                key = tuple(sorted(vals.items()))
                if key in seen:
                    continue
                seen.add(key)
                runs += 1
                if runs > max_runs:
                    return out
                bad = run(vals)
                for b in bad or []:
                    if b not in found:
                        found.add(b)
                        out.append({"clause": f"{name}:{b}" if not b.startswith("raised:") else w["clause"], "witness": {"module": module, "lemma": name, "rmode": True, "values": vals},
                                    "info": {"found_by": "concrete candidate search seeded by the R-mode models"}})
    return out


def stall_candidates(module, name, fn):
    """The R-mode proof of a lemma stalled and produced no model.  Seed `candidate_search` with one base
    assignment per value of the lemma's (first) `choose` - every other input at the low end of its range -
    so that the sweeps in steps of 10^k still run.  Candidates only; each one is replayed on the real code."""
    nopt, ranges = {}, {}

    class Probe(ConcreteInputs):
        def choose(self, nm, options):
            nopt.setdefault(nm, len(options))
            return super().choose(nm, options)

        def int(self, nm, lo, hi):
            ranges.setdefault(nm, (lo, hi))
            return super().int(nm, lo, hi)

    chooses = [{}]
    for k in range(4):  # one probe per value of the first choose, to learn the integer inputs of each mode
        try:
            fn(Probe({nm: k for nm in list(nopt)[:1]}, rmode=True))
        except Exception:  # the all-low-end input may already fail; the sweep below will report it
            pass
        if not nopt or k + 1 >= list(nopt.values())[0]:
            break
    for nm, n in list(nopt.items())[:1]:
        chooses = [{nm: k} for k in range(n)]
    profiles = [lambda lo, hi: hi, lambda lo, hi: hi - 1, lambda lo, hi: lo + (hi - lo) // 2, lambda lo, hi: lo + (hi - lo) // 3, lambda lo, hi: lo]
    bases = []
    for ch in chooses:
        for pf in profiles:
            b = dict(ch)
            b.update({nm: pf(lo, hi) for nm, (lo, hi) in ranges.items()})
            bases.append(b)
    wit = [{"clause": f"{name}:stalled", "witness": {"module": module, "lemma": name, "rmode": True, "values": b}} for b in bases[:20]]
    return candidate_search(module, name, fn, wit, max_runs=20000, max_witnesses=20)


def _as_term(x):
    if type(x) is bool:
        return z3.BoolVal(x)
    e = getattr(x, "e", None)
    return e if e is not None else x


def _conc(v, model):
    from .rmode import RInt
    from .fmode import FInt

    if type(v) is FInt:
        return model.eval(v.e, model_completion=True).as_signed_long()

    t = type(v)
    if t is int:
        return v
    if t is RInt:
        return model.eval(v.e, model_completion=True).as_long()
    if t is S.SymInt:
        return model.eval(v.e, model_completion=True).as_signed_long()
    if t is S.SymBool:
        return z3.is_true(model.eval(v.e, model_completion=True))
    if t is S.SymFloat:
        return model.eval(v.bv, model_completion=True).as_long()
    if t is S.SymUUID:
        from .shapes import concretise

        return concretise(v, model).int
    if t is S.SymEnumMember:
        return model.eval(v.value.e, model_completion=True).as_signed_long()
    return None


def replay_lemma(w, clause):
    """Concrete replay (called from kv.replay in a clean process)."""
    mod = importlib.import_module(w["module"])
    fn = dict(mod.LEMMAS)[w["lemma"]]
    fn = fn[0] if isinstance(fn, tuple) else fn
    I = ConcreteInputs(w["values"], rmode=w.get("rmode", False))
    try:
        fn(I)
    except AssumptionFailed:
        return {"reproduced": False, "detail": "witness does not satisfy the lemma's assumptions concretely"}
    except TooLargeToReplay as e:
        return {"reproduced": None, "error": f"witness too large to replay ({e})"}
    except Exception as e:
        import traceback

        return {"reproduced": True, "sig": {"lemma": w["lemma"], "kind": "exception", "exception": type(e).__name__},
                "detail": f"lemma {w['lemma']} on {w['values']}: real code raised {type(e).__name__}: {e} | {traceback.format_exc()[-400:]}"}
    bad = [n for n, ok in I.clauses if not ok]
    if bad:
        return {"reproduced": True, "sig": {"lemma": w["lemma"], "kind": "clause", "failed": bad[0]},
                "detail": f"lemma {w['lemma']} fails clause(s) {bad} on the real code with inputs {w['values']}"}
    return {"reproduced": False, "detail": f"all clauses hold concretely for {w['values']}"}


def task_lemma(args):
    module, name, rmode, opts = args
    mod = importlib.import_module(module)
    entry = dict(mod.LEMMAS)[name]
    fn = entry[0] if isinstance(entry, tuple) else entry
    h = LemmaHarness(module, name, fn, rmode)
    st = Stats()
    t0 = time.time()
    explore(h, max_paths=opts.get("max_paths", 4000), stats=st, hints=opts.get("hints", ()), range_bound=opts.get("range_bound", 3),
            deadline=t0 + opts.get("seconds", 120))
    if rmode and st.capped and not st.cex and not opts.get("no_fmode"):
        # the R-mode proof stalled (typically: float arithmetic appeared where the unchanged code has none): before more
        # solver time is spent, sweep concrete candidates; each is replayed on the real code before it is reported
        try:
            st.cex.extend(stall_candidates(module, name, fn))
        except Exception:  # best effort
            pass
    if st.capped and st.paths < opts.get("max_paths", 4000) and not st.cex:
        # the TIME cap was hit: z3's effort on the same query varies between processes (a lemma that normally takes two
        # seconds was once seen to exceed two minutes).  One more attempt with another solver seed and three times the
        # budget; the second result counts, whatever it is.
        z3.set_param("smt.random_seed", 7)
        z3.set_param("sat.random_seed", 7)
        try:
            st2 = Stats()
            t1 = time.time()
            explore(LemmaHarness(module, name, fn, rmode), max_paths=opts.get("max_paths", 4000), stats=st2, hints=opts.get("hints", ()),
                    range_bound=opts.get("range_bound", 3), deadline=t1 + 3 * opts.get("seconds", 120))
            st2.solver_s += st.solver_s
            st = st2
        finally:
            z3.set_param("smt.random_seed", 0)
            z3.set_param("sat.random_seed", 0)
    if rmode and st.cex and not opts.get("no_fmode"):
        # R-mode counterexamples may be artefacts of the over-approximation: also look for exact witnesses
        extra = []
        try:
            extra = candidate_search(module, name, fn, [c for c in st.cex if c.get("witness")])
        except (Exception, Unsupported, PathAbort):  # best effort; the engine's control-flow exceptions are BaseExceptions
            extra = []
        if not extra and opts.get("fmode"):
            try:
                extra = fmode_witnesses(module, name, fn, sorted({c["clause"] for c in st.cex}))
            except Exception:  # the search is best effort
                extra = []
        st.cex.extend(extra)
    if rmode and st.capped and not st.cex and not opts.get("no_fmode"):
        # the R-mode proof stalled (typically: float arithmetic appeared where the unchanged code has none).  Before the
        # lemma is reported inconclusive, search exact floating-point witnesses for every clause; each candidate is replayed
        # on the real code, so this can only turn an inconclusive into a reproduced violation, never raise a false alarm.
        try:
            st.cex.extend(stall_candidates(module, name, fn))
            if not st.cex:
                st.cex.extend(fmode_witnesses(module, name, fn, None))
        except Exception:  # best effort
            pass
    return {"lemma": name, "stats": st.to_json(), "wall": round(time.time() - t0, 2)}


def check_lemmas(prop, module, tier, *, functions, bounds, outside, assumptions, level="model_checking", extra_tasks=None):
    """Run every lemma of `module` (LEMMAS = [(name, fn | (fn, {'rmode': True, ...}))])."""
    from . import install, runner

    t0 = time.time()
    install.install()
    mod = importlib.import_module(module)
    tasks = []
    for name, entry in mod.LEMMAS:
        o = {}
        if isinstance(entry, tuple):
            o = dict(entry[1])
        if o.get("tier") == "thorough" and tier != "thorough":
            continue
        opts = dict(o)
        if tier == "thorough":
            opts["max_paths"] = o.get("max_paths", 4000) * 4
            opts["seconds"] = o.get("seconds", 120) * 4
        tasks.append((module, name, bool(o.get("rmode")), opts))
    total = Stats()
    per = []
    inconclusive = []
    for r in runner.pool_map(task_lemma, tasks):
        st = Stats.from_json(r["stats"])
        total.merge(st)
        per.append({"lemma": r["lemma"], "paths": st.paths, "queries": st.queries, "wall_s": r["wall"], "capped": st.capped,
                    "outcomes": st.outcomes})
        if st.paths == 0:
            inconclusive.append(f"lemma {r['lemma']}: no path completed (vacuous)")
        if st.capped:
            inconclusive.append(f"lemma {r['lemma']}: path/time cap hit with {st.remaining} prefixes unexplored")
    if total.unsupported:
        inconclusive.append(f"{total.unsupported} path(s) could not be followed by the engine: {list(total.unsupported_msgs.items())[:5]}")
    for cl, (reached, _) in total.clauses.items():
        if reached == 0:
            inconclusive.append(f"clause {cl} reached by 0 paths (vacuous)")
    per.sort(key=lambda d: d["lemma"])
    cov = runner.mc_coverage(total, functions=functions, bounds=bounds, outside=outside,
                             rule="one state = one completed symbolic path of one lemma over the real kio functions; distinct by construction",
                             extra={"lemmas": per, "lemmas_run": len(per), "source_hashes": install.source_hashes()})
    samples = per[:6]
    return runner.finish(prop, tier, t0, level=level, coverage=cov, assumptions=assumptions, cex=total.cex,
                         inconclusive=inconclusive, samples=samples)
