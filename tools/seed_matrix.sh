#!/bin/bash
# run the targeted quick checks against every seed (sequential: /repo is patched in place)
cd /verif
run() { s=$1; shift; echo "##### $s"; tools/try_seed.sh /verif/seeded/$s "$@" 2>&1 | cut -c1-300; }
run C03-1 C03
run C06-1 C06
run C08-1 C08
run C09-1 C09
run C10-1 C10 C06
run C11-1 C11
run C12-1 C12 C11
run C13-1 C13 C19
run C14-1 C14
run C15-1 C15
run C16-1 C16
run C17-1 C17
run C18-1 C18
run C19-1 C19
run C07-1 C07
