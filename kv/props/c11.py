"""C11 - primitive readers and writers implement the Kafka primitive encodings.

One polymorphic lemma per public function/pair of kio.serial.readers / kio.serial.writers,
each stating the bit-level specification independently of kio (arithmetic formulas written
here) and deciding it for the whole value domain with the solver."""
from __future__ import annotations

from .. import kref

TAIL = 0xA5  # replaced by a symbolic byte in symbolic mode


def _rw():
    from kio.serial import readers, writers

    return readers, writers


def tail(I):
    return I.byte("tail")


# ---- independent arithmetic specifications ---------------------------------------------------
def from_be(I, bs, signed):
    v = 0
    for b in bs:
        v = v * 256 + b
    if signed:
        return I.ite(bs[0] >= 128, v - (1 << (8 * len(bs))), v)
    return v


def spec_zigzag(I, v):
    return I.ite(v >= 0, v * 2, v * -2 - 1)


def spec_unzigzag(I, n):
    return I.ite((n & 1) == 0, n >> 1, -(n >> 1) - 1)


def groups_value(bs):
    acc = 0
    for i, b in enumerate(bs):
        acc = acc + ((b & 0x7F) << (7 * i))
    return acc


INT = {"int8": (1, True), "int16": (2, True), "int32": (4, True), "int64": (8, True),
       "uint8": (1, False), "uint16": (2, False), "uint32": (4, False), "uint64": (8, False)}


def mk_int_lemma(name):
    n, signed = INT[name]
    lo, hi = (-(1 << (8 * n - 1)), (1 << (8 * n - 1)) - 1) if signed else (0, (1 << (8 * n)) - 1)

    def lemma(I):
        R, Wr = _rw()
        W, Rd = getattr(Wr, f"write_{name}"), getattr(R, f"read_{name}")
        mode = I.choose("mode", ["in", "below", "above", "read"])
        if mode == "in":
            v = I.int("v", lo, hi)
            s = I.sink()
            W(s, v)
            out = I.written(s)
            I.check("bytes_are_twos_complement_big_endian", I.same_bytes(out, kref.be(v, n, signed)))
            t = tail(I)
            src = I.src(out + [t])
            r = Rd(src)
            I.check("reader_after_writer_identity", r == v)
            I.check("exact_consumption", I.same_bytes(I.rest(src), [t]))
        elif mode in ("below", "above"):
            v = I.int("v", -(2**100), lo - 1) if mode == "below" else I.int("v", hi + 1, 2**100)
            s = I.sink()
            try:
                W(s, v)
            except Exception:
                I.check("raises_outside_domain", True)
                I.check("nothing_written_on_refusal", len(I.written(s)) == 0)
                return
            I.check("raises_outside_domain", False)
        else:
            bs = [I.byte(f"b{i}") for i in range(n)]
            t = tail(I)
            src = I.src(bs + [t])
            r = Rd(src)
            I.check("value_is_twos_complement_big_endian", r == from_be(I, bs, signed))
            I.check("exact_consumption", I.same_bytes(I.rest(src), [t]))

    return lemma


def lemma_bool(I):
    R, Wr = _rw()
    mode = I.choose("mode", ["write", "read"])
    if mode == "write":
        b = I.bool("b")
        s = I.sink()
        Wr.write_boolean(s, b)
        out = I.written(s)
        I.check("one_byte", len(out) == 1)
        I.check("byte_is_0_or_1", out[0] == I.ite(b, 1, 0))
        r = R.read_boolean(I.src(out))
        I.check("reader_after_writer_identity", I.iff(r, b))
    else:
        x = I.byte("x")
        t = tail(I)
        src = I.src([x, t])
        r = R.read_boolean(src)
        I.check("nonzero_is_true", I.iff(r, x != 0))
        I.check("exact_consumption", I.same_bytes(I.rest(src), [t]))


def lemma_float64(I):
    R, Wr = _rw()
    f = I.f64("f")
    s = I.sink()
    Wr.write_float64(s, f)
    out = I.written(s)
    I.check("eight_bytes", len(out) == 8)
    I.check("ieee754_big_endian", I.same_bytes(out, kref.enc_prim("float64", f, False)))
    t = tail(I)
    src = I.src(out + [t])
    r = R.read_float64(src)
    s2 = I.sink()
    Wr.write_float64(s2, r)
    I.check("bit_pattern_preserved", I.same_bytes(I.written(s2), out))
    I.check("exact_consumption", I.same_bytes(I.rest(src), [t]))


def mk_uvarint_write(fn, hi, maxlen, reader):
    def lemma(I):
        R, Wr = _rw()
        v = I.int("v", 0, hi)
        s = I.sink()
        getattr(Wr, fn)(s, v)
        out = I.written(s)
        k = len(out)
        I.check("at_most_max_bytes", k <= maxlen)
        I.check("continuation_bits_on_all_but_last", I.all([I.iff((b & 0x80) != 0, i < k - 1) for i, b in enumerate(out)]))
        I.check("little_endian_7bit_groups", groups_value(out) == v)
        I.check("minimal_length", True if k == 1 else (out[-1] & 0x7F) != 0)
        t = tail(I)
        src = I.src(out + [t])
        r = getattr(R, reader)(src)
        I.check("reader_after_writer_identity", r == v)
        I.check("exact_consumption", I.same_bytes(I.rest(src), [t]))

    return lemma


def mk_uvarint_read(reader, maxlen):
    def lemma(I):
        R, Wr = _rw()
        bs = [I.byte(f"b{i}") for i in range(maxlen + 1)]
        src = I.src(bs)
        try:
            r = getattr(R, reader)(src)
        except ValueError:
            I.check("raises_iff_last_allowed_byte_continues", I.all([(b & 0x80) != 0 for b in bs[:maxlen]]))
            return
        n = maxlen + 1 - len(I.rest(src))
        I.check("consumes_1_to_max", 1 <= n <= maxlen)
        I.check("stops_at_first_byte_without_continuation",
                I.all([(b & 0x80) != 0 for b in bs[: n - 1]] + [(bs[n - 1] & 0x80) == 0]))
        I.check("value_is_sum_of_groups", r == groups_value(bs[:n]))

    return lemma


def mk_svarint(bits, wfn, rfn):
    lo, hi = -(1 << (bits - 1)), (1 << (bits - 1)) - 1

    def lemma(I):
        R, Wr = _rw()
        mode = I.choose("mode", ["write", "read"])
        if mode == "write":
            v = I.int("v", lo, hi)
            s = I.sink()
            getattr(Wr, wfn)(s, v)
            out = I.written(s)
            I.check("zigzag_then_unsigned_varint", I.same_bytes(out, kref.uvarint(spec_zigzag(I, v))))
            t = tail(I)
            src = I.src(out + [t])
            r = getattr(R, rfn)(src)
            I.check("reader_after_writer_identity", r == v)
            I.check("exact_consumption", I.same_bytes(I.rest(src), [t]))
        else:
            maxlen = 5 if bits == 32 else 10
            bs = [I.byte(f"b{i}") for i in range(maxlen + 1)]
            src = I.src(bs)
            try:
                r = getattr(R, rfn)(src)
            except ValueError:
                I.check("raises_iff_last_allowed_byte_continues", I.all([(b & 0x80) != 0 for b in bs[:maxlen]]))
                return
            n = maxlen + 1 - len(I.rest(src))
            I.check("value_is_unzigzag_of_groups", r == spec_unzigzag(I, groups_value(bs[:n])))

    return lemma


REGIONS = [(0, 126), (127, 16382), (16383, 32767), (32768, 2**21 - 2), (2**21 - 1, 2**28 - 2), (2**28 - 1, 2**31 - 1)]


def mk_string(wname, rname, compact, nullable, kind):
    """writer/reader pair for length-prefixed strings/bytes."""
    limit = None if compact else (2**15 - 1 if kind == "str" else 2**31 - 1)
    regions = list(REGIONS)
    if not compact and kind == "bytes":
        regions.append((2**31 - 2, 2**31 + 2))

    def lemma(I):
        R, Wr = _rw()
        from kio.serial.errors import OutOfBoundValue, UnexpectedNull

        W, Rd = getattr(Wr, wname), getattr(R, rname)
        mode = I.choose("mode", ["value", "null_write", "null_read"])
        if mode == "value":
            lo, hi = I.choose("region", regions)
            p, n = I.payload("p", lo, hi, kind)
            s = I.sink()
            try:
                W(s, p)
            except OutOfBoundValue:
                I.outcome("refused")
                I.check("refuses_only_unrepresentable_length", False if limit is None else n > limit)
                return
            if limit is not None:
                I.check("writes_only_representable_length", n <= limit)
            out = I.written(s)
            ref = kref.enc_string(p, compact) if kind == "str" else kref.enc_bytes(p, compact)
            I.check("length_prefix_and_payload", I.same_bytes(out, ref))
            t = tail(I)
            src = I.src(out + [t])
            r = Rd(src)
            I.check("reader_after_writer_identity", r == p)
            I.check("exact_consumption", I.same_bytes(I.rest(src), [t]))
        elif mode == "null_write":
            s = I.sink()
            try:
                W(s, None)
            except Exception:
                I.check("non_nullable_writer_rejects_None", not nullable)
                return
            I.check("non_nullable_writer_rejects_None", nullable)
            out = I.written(s)
            null_form = kref.enc_string(None, compact) if kind == "str" else kref.enc_bytes(None, compact)
            I.check("null_form", I.same_bytes(out, null_form))
        else:
            null_form = kref.enc_string(None, compact) if kind == "str" else kref.enc_bytes(None, compact)
            t = tail(I)
            src = I.src(null_form + [t])
            try:
                r = Rd(src)
            except UnexpectedNull:
                I.check("UnexpectedNull_exactly_for_non_nullable_reader", not nullable)
                return
            I.check("UnexpectedNull_exactly_for_non_nullable_reader", nullable)
            I.check("null_reads_as_None", r is None)
            I.check("exact_consumption", I.same_bytes(I.rest(src), [t]))

    return lemma


def mk_array(compact):
    def lemma(I):
        R, Wr = _rw()
        from kio.serial.errors import OutOfBoundValue

        aw = (Wr.compact_array_writer if compact else Wr.legacy_array_writer)(Wr.write_int32)
        ar = (R.compact_array_reader if compact else R.legacy_array_reader)(R.read_int32)
        n = I.choose("n", [None, 0, 1, 2, 3, 126, 127, 128, 300, 1000])  # 300/1000: beyond any plausible chunk size of a bulk fast path
        items = None if n is None else tuple(I.int(f"x{i}", -(2**31), 2**31 - 1) for i in range(n))
        s = I.sink()
        aw(s, items)
        out = I.written(s)
        ref = kref.enc_array(items, lambda it: kref.be(it, 4, True), compact)
        I.check("length_prefix_and_items", I.same_bytes(out, ref))
        t = tail(I)
        src = I.src(out + [t])
        r = ar(src)
        if items is None:
            I.check("null_array_reads_as_None", r is None)
        else:
            I.check("same_length", r is not None and len(r) == len(items))
            I.check("reader_after_writer_identity", False if r is None else I.all([a == b for a, b in zip(r, items)]))
        I.check("exact_consumption", I.same_bytes(I.rest(src), [t]))

    return lemma


def lemma_array_length_prefix(I):
    """array length helpers on the whole prefix domain"""
    R, Wr = _rw()
    mode = I.choose("mode", ["compact", "legacy"])
    if mode == "compact":
        n = I.int("n", -1, 2**31 - 1)
        s = I.sink()
        Wr.write_compact_array_length(s, n)
        out = I.written(s)
        I.check("uvarint_of_length_plus_one", I.same_bytes(out, kref.uvarint(n + 1)))
        r = R.read_compact_array_length(I.src(out))
        I.check("reader_after_writer_identity", r == n)
    else:
        n = I.int("n", -1, 2**31 - 1)
        s = I.sink()
        Wr.write_legacy_array_length(s, n)
        out = I.written(s)
        I.check("int32_length", I.same_bytes(out, kref.be(n, 4, True)))
        r = R.read_legacy_array_length(I.src(out))
        I.check("reader_after_writer_identity", r == n)


def lemma_uuid(I):
    R, Wr = _rw()
    mode = I.choose("mode", ["write", "write_null", "read"])
    if mode == "write":
        u = I.uuid("u")
        s = I.sink()
        Wr.write_uuid(s, u)
        out = I.written(s)
        I.check("sixteen_bytes_big_endian", I.same_bytes(out, list(u.bytes)))
        r = R.read_uuid(I.src(out))
        zero = I.same_bytes(list(u.bytes), [0] * 16)
        I.check("reads_back_equal_or_None_iff_zero", _uuid_back(I, zero, r, u))
    elif mode == "write_null":
        s = I.sink()
        Wr.write_uuid(s, None)
        I.check("null_is_all_zero", I.same_bytes(I.written(s), [0] * 16))
    else:
        bs = [I.byte(f"b{i}") for i in range(16)]
        t = tail(I)
        src = I.src(bs + [t])
        r = R.read_uuid(src)
        allzero = I.all([b == 0 for b in bs])
        if r is None:
            I.check("None_iff_all_zero", allzero)
        else:
            I.check("None_iff_all_zero", I.not_(allzero))
            I.check("bytes_preserved", I.same_bytes(list(r.bytes), bs))
        I.check("exact_consumption", I.same_bytes(I.rest(src), [t]))


def _uuid_back(I, zero, r, u):
    if r is None:
        return zero
    eq = (r == u)
    return I.all([I.not_(zero), eq])


def lemma_error_code(I):
    R, Wr = _rw()
    from kio.schema.errors import ErrorCode

    mode = I.choose("mode", ["write", "read"])
    if mode == "write":
        m = I.error_code("code")
        s = I.sink()
        Wr.write_error_code(s, m)
        out = I.written(s)
        I.check("int16_of_value", I.same_bytes(out, kref.be(m.value, 2, True)))
        r = R.read_error_code(I.src(out))
        I.check("reader_after_writer_identity", r == m)
    else:
        bs = [I.byte("b0"), I.byte("b1")]
        v = from_be(I, bs, True)
        known = I.any([v == int(m.value) for m in ErrorCode])
        try:
            r = R.read_error_code(I.src(bs))
        except ValueError:
            I.check("ValueError_iff_unknown_code", I.not_(known))
            return
        I.check("ValueError_iff_unknown_code", known)
        I.check("member_has_wire_value", r.value == v)


def lemma_tagged_field(I):
    """write_tagged_field: tag, size, payload - for a symbolic tag and an int32 payload"""
    R, Wr = _rw()
    tag = I.int("tag", 0, 2**31 - 1)
    v = I.int("v", -(2**31), 2**31 - 1)
    s = I.sink()
    Wr.write_tagged_field(s, tag, Wr.write_int32, v)
    out = I.written(s)
    I.check("tag_size_data", I.same_bytes(out, kref.uvarint(tag) + kref.uvarint(4) + kref.be(v, 4, True)))
    s2 = I.sink()
    Wr.write_empty_tagged_fields(s2)
    I.check("empty_section_is_zero", I.same_bytes(I.written(s2), [0]))


# ---- time conversions: integer/real family (R-mode) --------------------------------------------
TD64_MAX_MS = (999999999 * 86400 + 86399 - 86400) * 1000 + 999  # i64Timedelta max (timedelta.max - 1 day), whole ms
TD64_MIN_MS = -999999999 * 86400 * 1000
DT_MAX_MS = 253402300799999


def mk_timedelta(bits):
    lo, hi = (-(2**31), 2**31 - 1) if bits == 32 else (TD64_MIN_MS, TD64_MAX_MS)
    fmt = ">i" if bits == 32 else ">q"

    def lemma(I):
        R, Wr = _rw()
        W = getattr(Wr, f"write_timedelta_i{bits}")
        Rd = getattr(R, f"read_timedelta_i{bits}")
        mode = I.choose("mode", ["write", "read"])
        ms = I.int("ms", lo, hi)
        if mode == "write":
            td = I.timedelta_us(ms * 1000)
            s = I.sink()
            W(s, td)
            out = I.written(s)
            I.check("one_integer_written", len(out) == (1 if I.symbolic else bits // 8))
            I.check("writes_exact_milliseconds", I.unpacked(out[0] if I.symbolic else out) == ms)
        else:
            src = I.src([I.packed(fmt, ms)]) if I.symbolic else I.src(I.packed(fmt, ms))
            td = Rd(src)
            I.check("reads_exact_milliseconds", td == I.timedelta_us(ms * 1000))
            s = I.sink()
            W(s, td)
            out = I.written(s)
            I.check("writer_after_reader_identity", I.unpacked(out[0] if I.symbolic else out) == ms)

    return lemma


def mk_datetime(nullable):
    def lemma(I):
        R, Wr = _rw()
        from kio.serial.errors import OutOfBoundValue

        W = Wr.write_nullable_datetime_i64 if nullable else Wr.write_datetime_i64
        Rd = R.read_nullable_datetime_i64 if nullable else R.read_datetime_i64
        mode = I.choose("mode", ["write", "read"] + (["null"] if nullable else []))
        if mode == "null":
            s = I.sink()
            W(s, None)
            out = I.written(s)
            I.check("null_is_minus_one", I.unpacked(out[0] if I.symbolic else out) == -1)
            src = I.src([I.packed(">q", -1)]) if I.symbolic else I.src(I.packed(">q", -1))
            I.check("minus_one_reads_as_None", Rd(src) is None)
            return
        secs = I.int("secs", 0, DT_MAX_MS // 1000)
        msec = I.int("msec", 0, 999)
        ms = secs * 1000 + msec
        if mode == "write":
            dt = I.datetime_utc(secs, msec * 1000)
            s = I.sink()
            W(s, dt)
            out = I.written(s)
            I.check("writes_exact_milliseconds", I.unpacked(out[0] if I.symbolic else out) == ms)
        else:
            src = I.src([I.packed(">q", ms)]) if I.symbolic else I.src(I.packed(">q", ms))
            dt = Rd(src)
            I.check("reads_exact_instant", dt == I.datetime_utc(secs, msec * 1000))
            s = I.sink()
            W(s, dt)
            out = I.written(s)
            I.check("writer_after_reader_identity", I.unpacked(out[0] if I.symbolic else out) == ms)

    return lemma


LEMMAS = []
for _n in INT:
    LEMMAS.append((f"fixed_{_n}", mk_int_lemma(_n)))
LEMMAS += [
    ("boolean", lemma_bool),
    ("float64", lemma_float64),
    ("unsigned_varint_write", mk_uvarint_write("write_unsigned_varint", 2**35 - 1, 5, "read_unsigned_varint")),
    ("unsigned_varlong_write", mk_uvarint_write("write_unsigned_varlong", 2**70 - 1, 10, "read_unsigned_varlong")),
    ("unsigned_varint_read", mk_uvarint_read("read_unsigned_varint", 5)),
    ("unsigned_varlong_read", mk_uvarint_read("read_unsigned_varlong", 10)),
    ("signed_varint", mk_svarint(32, "write_signed_varint", "read_signed_varint")),
    ("signed_varlong", mk_svarint(64, "write_signed_varlong", "read_signed_varlong")),
    ("compact_string", mk_string("write_compact_string", "read_compact_string", True, False, "str")),
    ("nullable_compact_string", mk_string("write_nullable_compact_string", "read_compact_string_nullable", True, True, "str")),
    ("compact_bytes", mk_string("write_compact_string", "read_compact_string_as_bytes", True, False, "bytes")),
    ("nullable_compact_bytes", mk_string("write_nullable_compact_string", "read_compact_string_as_bytes_nullable", True, True, "bytes")),
    ("legacy_string", mk_string("write_legacy_string", "read_legacy_string", False, False, "str")),
    ("nullable_legacy_string", mk_string("write_nullable_legacy_string", "read_nullable_legacy_string", False, True, "str")),
    ("legacy_bytes", mk_string("write_legacy_bytes", "read_legacy_bytes", False, False, "bytes")),
    ("nullable_legacy_bytes", mk_string("write_nullable_legacy_bytes", "read_nullable_legacy_bytes", False, True, "bytes")),
    ("compact_array", mk_array(True)),
    ("legacy_array", mk_array(False)),
    ("array_length_prefix", lemma_array_length_prefix),
    ("uuid", lemma_uuid),
    ("error_code", lemma_error_code),
    ("tagged_field", lemma_tagged_field),
    ("timedelta_i32", (mk_timedelta(32), {"rmode": True})),
    ("timedelta_i64", (mk_timedelta(64), {"rmode": True})),
    ("datetime_i64", (mk_datetime(False), {"rmode": True})),
    ("nullable_datetime_i64", (mk_datetime(True), {"rmode": True})),
]


def check(tier):
    from ..lemma import check_lemmas

    return check_lemmas(
        "C11", "kv.props.c11", tier,
        functions=["kio.serial.writers.write_* (all public writers)", "kio.serial.readers.read_* (all public readers)",
                   "kio.serial.writers.compact_array_writer/legacy_array_writer", "kio.serial.readers.compact_array_reader/legacy_array_reader",
                   "kio.serial.writers.write_tagged_field/write_empty_tagged_fields", "kio.static.primitive (Phantom predicates reached through i16()/i32()/uvarint())"],
        bounds={"fixed_width_ints": "every value of the type; outside-domain values with |v| <= 2^100", "reader_inputs": "every byte string of the width (+1 tail byte)",
                "varints": "write: [0, 2^35) resp. [0, 2^70); read: every 6- resp. 11-byte input", "zigzag": "all of int32 / int64",
                "strings_bytes": "every length in [0, 2^31) (regions), null forms; legacy bytes also 2^31-2..2^31+2", "arrays": "null and 0..3, 126, 127, 128, 300, 1000 int32 items",
                "durations": "i32: all 2^32 wire values; i64: every whole millisecond of the i64Timedelta type", "timestamps": "every whole millisecond from the epoch to 9999-12-31T23:59:59.999Z, UTC",
                "float_model": "R-mode (z3 Int/Real, standard model of IEEE-754 rounding) for the time conversions"},
        outside=["payload content (opaque)", "arrays longer than 3", "non-UTC offsets (C12)", "sub-millisecond durations/timestamps (C12)",
                 "varint writers on negative input (they do not terminate; the statement limits the raise clause to fixed-width and length-limited writers)"],
        assumptions=["A1", "A3", "A4", "A5", "A8"])
