"""Entity-level harnesses on Python-first symbolic instances: C01 (round trip, exact
consumption), C02 (bytes equal the reference encoder), C06 (symbolic cut position)."""
from __future__ import annotations

import os
import time

import z3

from .. import kref, shapes
from ..core import Stats, Unsupported, Violation, explore
from ..models import Sink, Src
from ..sym import SymBool, SymBytes, SymInt, W, byte_of


def tier_opts(tier, prop=None):
    o = _tier_opts(tier)
    if prop == "C06":  # one path per read call: cheap paths, more of them
        o["per_shape_paths"] = 120 if tier == "quick" else 1200
        o["class_paths"] = 120 if tier == "quick" else 1200
    return o


def _tier_opts(tier):
    if tier == "quick":
        return dict(regions=shapes.REGIONS_QUICK, max_array=2, max_shapes=60, max_dev=1, per_shape_paths=24,
                    class_paths=150, class_seconds=25)
    return dict(regions=shapes.REGIONS_ALL, max_array=2, max_shapes=1500, max_dev=3, per_shape_paths=64,
                class_paths=1000, class_seconds=150, wall_budget=27 * 60)


def sym_tail(c, n=2):
    return [byte_of(z3.BitVec(f"tail{i}", 8)) for i in range(n)]


class EntityHarness:
    prop = "?"

    def __init__(self, cls, shape, opts):
        self.cls = cls
        self.shape = shape
        self.opts = opts
        from kio.serial import entity_reader, entity_writer
        from kio.serial.errors import BufferUnderflow, OutOfBoundValue

        self.w = entity_writer(cls)
        self.r = entity_reader(cls)
        self.OutOfBoundValue = OutOfBoundValue
        self.BufferUnderflow = BufferUnderflow

    @classmethod
    def builder_kwargs(cls, opts):
        return dict(regions=opts["regions"], max_array=opts["max_array"])

    @classmethod
    def hints(cls, entity_cls):
        return ()

    def build(self, c):
        b = shapes.Builder(c, self.shape, **self.builder_kwargs(self.opts))
        x = b.entity(self.cls)
        c.notes["builder"] = b
        c.notes["instance"] = x
        return b, x

    def write(self, c, x):
        """-> Sink | None (None = the writer refused a value the format cannot represent)"""
        sink = Sink()
        try:
            self.w(sink, x)
        except self.OutOfBoundValue:
            return None
        except Unsupported:
            raise
        except Exception as e:
            raise Violation("writer_raises", {"exception": type(e).__name__, "msg": str(e)[:200]})
        c.notes["sink_items"] = list(sink.items)
        return sink

    def refusal_obligation(self, c, x):
        lim = []
        kref.encode(x, limits=lim)
        c.outcome = "refused"
        return [("refusal_only_when_unrepresentable", z3.Or(*lim) if lim else False)]

    def witness(self, c, model, clause, info):
        b = c.notes["builder"]
        # prefer a model with small payload lengths (so the witness can be replayed concretely)
        m = shapes.prefer_small(c, b.leaves, extra=c.notes.get("neg_clause")) or model
        try:
            inst = shapes.concretise(c.notes["instance"], m)
        except shapes.TooLarge:
            raise
        c.notes["witness_model"] = m
        w = {"class": shapes.class_id(self.cls), "instance": shapes.to_jsonable(inst), "shape": self.shape}
        for k in ("tail", "cut"):
            if k in c.notes:
                v = c.notes[k]
                w[k] = shapes.concretise(v, m)
        return w


class C01(EntityHarness):
    prop = "C01"

    def run(self, c):
        b, x = self.build(c)
        sink = self.write(c, x)
        if sink is None:
            return self.refusal_obligation(c, x)
        tail = sym_tail(c)
        c.notes["tail"] = tail
        src = Src(SymBytes(sink.items + tail))
        try:
            y = self.r(src)
        except Unsupported:
            raise
        except Exception as e:
            raise Violation("reader_raises", {"exception": type(e).__name__, "msg": str(e)[:200]})
        eq = (y == x)
        if type(eq) is not bool and type(eq) is not SymBool:
            eq = bool(eq)
        rem = src.remaining().items
        cons, why = kref.items_equal(rem, tail)
        c.outcome = "decoded"
        return [("roundtrip_equal", eq), ("exact_consumption", cons)]


class C02(EntityHarness):
    prop = "C02"

    @classmethod
    def builder_kwargs(cls, opts):
        return dict(regions=opts["regions"], max_array=opts["max_array"], big_array=300)

    def run(self, c):
        b, x = self.build(c)
        sink = self.write(c, x)
        if sink is None:
            return self.refusal_obligation(c, x)
        lim = []
        ref = kref.encode(x, limits=lim)
        eq, why = kref.items_equal(sink.items, ref)
        if why:
            c.notes["violation_info"] = {"mismatch": why}
        c.outcome = "encoded"
        obl = [("bytes_equal_reference", eq)]
        if lim:
            obl.append(("written_only_when_representable", z3.Not(z3.Or(*lim))))
        return obl


class C06(EntityHarness):
    prop = "C06"

    def run(self, c):
        b, x = self.build(c)
        sink = self.write(c, x)
        if sink is None:
            c.outcome = "refused"
            return []
        data = SymBytes(sink.items)
        src = Src(data, cut=True)
        c.notes["src"] = src
        try:
            y = self.r(src)
        except self.BufferUnderflow:
            if src.cut_at is None:
                raise Violation("complete_input_decodes", {"exception": "BufferUnderflow"})
            c.notes["cut"] = src.cut_at
            c.outcome = "BufferUnderflow"
            return [("prefix_raises_BufferUnderflow", True)]
        except Unsupported:
            raise
        except Exception as e:
            if src.cut_at is None:
                raise Violation("complete_input_decodes", {"exception": type(e).__name__})
            c.notes["cut"] = src.cut_at
            c.outcome = "other:" + type(e).__name__
            raise Violation("prefix_raises_BufferUnderflow", {"exception": type(e).__name__, "msg": str(e)[:200]})
        if src.cut_at is None:
            # no read fell short: the whole encoding was available - not a strict prefix
            c.outcome = "complete_input"
            return [("complete_input_decodes", True)]
        c.notes["cut"] = src.cut_at
        c.outcome = "returned"
        raise Violation("prefix_raises_BufferUnderflow", {"returned": True})


HARNESS = {"C01": C01, "C02": C02, "C06": C06}


def task_class(args):
    prop, cid, opts = args
    if prop not in HARNESS:
        _load_wire()
    t0 = time.time()
    if opts.get("deadline") and t0 > opts["deadline"]:
        return {"class": cid, "stats": Stats().to_json(), "shapes": 0, "complete_deviation_depth": -1, "schedule_exhausted": False, "wall": 0,
                "validated": 0, "validation_mismatch": 0, "skipped": True}
    cls = shapes.class_by_id(cid)
    stats = Stats()
    deadline = t0 + opts["class_seconds"]
    nshapes = 0
    val = [0, 0]
    depth_done = -1
    cur_depth = 0
    exhausted = True
    H = HARNESS[prop]
    hints = H.hints(cls)
    for shape, depth in shapes.shape_schedule(cls, opts["max_shapes"], opts["max_dev"], **H.builder_kwargs(opts)):
        if depth != cur_depth:
            depth_done = cur_depth
            cur_depth = depth
        if stats.paths >= opts["class_paths"] or time.time() > deadline:
            exhausted = False
            break
        h = HARNESS[prop](cls, shape, opts)
        first = [True]

        def on_path(c, first=first):
            if first[0] and nshapes < 6:
                first[0] = False
                try:
                    v = validate_path(c)
                except Exception:
                    v = False
                if v is True:
                    val[0] += 1
                elif v is False:
                    val[1] += 1

        explore(h, max_paths=opts["per_shape_paths"], stats=stats, deadline=deadline, range_bound=opts["max_array"] + 1,
                on_path=on_path, hints=hints)
        nshapes += 1
        if nshapes == 1 and stats.paths and not stats.samples:
            stats.samples.append({"class": cid, "shape": "base", "paths": stats.paths})
    else:
        depth_done = cur_depth
    return {"class": cid, "stats": stats.to_json(), "shapes": nshapes, "complete_deviation_depth": depth_done,
            "schedule_exhausted": exhausted, "wall": round(time.time() - t0, 2), "validated": val[0],
            "validation_mismatch": val[1]}


# ---------------------------------------------------------------------------------------
def validate_path(c):
    """Trace validation: concretise the instance under a model of this path, run the real
    kio writer on the concrete instance, and compare with the symbolic output evaluated
    under the same model."""
    import io

    b = c.notes.get("builder")
    items = c.notes.get("sink_items")
    if b is None or items is None:
        return None
    m = shapes.prefer_small(c, b.leaves)
    if m is None:
        return None
    try:
        inst = shapes.concretise(c.notes["instance"], m)
        sym = shapes.concretise(SymBytes(items), m)
    except shapes.TooLarge:
        return None
    from kio.serial import entity_writer

    buf = io.BytesIO()
    entity_writer(type(inst))(buf, inst)
    return buf.getvalue() == sym


def _load_wire():
    from . import wire  # registers C03/C05 in HARNESS

    return wire


FUNCTIONS = {
    "C03": ["kio.serial._parse.entity_reader (incl. tagged-field loop and implicit defaults)", "kio.serial.readers.*",
            "kio.serial._implicit_defaults.*", "kio.static.primitive (TZAware, predicates)", "generated dataclass __eq__"],
    "C05": ["kio.serial._parse.entity_reader", "kio.serial._serialize.entity_writer", "kio.serial.readers.*", "kio.serial.writers.*",
            "kio.static.primitive (TZAware.truncate, predicates)"],
    "C01": ["kio.serial._serialize.entity_writer", "kio.serial._parse.entity_reader", "kio.serial.writers.*", "kio.serial.readers.*",
            "kio.serial._introspect.*", "kio.serial._implicit_defaults.*", "kio.static._phantom.Phantom.__instancecheck__/parse",
            "generated dataclass __eq__ of every schema class"],
    "C02": ["kio.serial._serialize.entity_writer", "kio.serial.writers.*", "kio.serial._introspect.*",
            "kio.serial._implicit_defaults.*"],
    "C06": ["kio.serial._serialize.entity_writer", "kio.serial._parse.entity_reader", "kio.serial.readers.read_exact and all readers"],
}


LEMMA_MODULE = {"C05": "kv.props.c05l", "C01": "kv.props.c01l", "C02": "kv.props.c01l", "C03": "kv.props.c01l"}


def check(prop, tier, extra_tasks=None, assumptions=None):
    import sys

    _load_wire()
    from .. import install, runner
    from ..core import Stats

    t0 = time.time()
    rep = install.install()
    opts = tier_opts(tier, prop)
    if opts.get("wall_budget"):
        opts["deadline"] = t0 + opts["wall_budget"]
    classes = shapes.all_entity_classes()
    targets = shapes.signature_representatives(classes) if tier == "quick" else classes
    if os.environ.get("VERIF_LIMIT"):
        targets = targets[: int(os.environ["VERIF_LIMIT"])]
    import random

    rnd = random.Random(runner.seed())
    targets = list(targets)
    rnd.shuffle(targets)
    total = Stats()
    per_class = []
    skipped = []
    depth_hist = {}
    exhausted = 0
    validated = 0
    val_mismatch = 0
    for r in runner.pool_map(task_class, [(prop, shapes.class_id(c), opts) for c in targets], progress=200):
        st = Stats.from_json(r["stats"])
        total.merge(st)
        if r.get("skipped"):
            skipped.append(r["class"])
            continue
        depth_hist[r["complete_deviation_depth"]] = depth_hist.get(r["complete_deviation_depth"], 0) + 1
        exhausted += 1 if r["schedule_exhausted"] else 0
        validated += r.get("validated", 0)
        val_mismatch += r.get("validation_mismatch", 0)
        per_class.append((r["class"], st.paths, r["shapes"]))
    inconclusive = []
    lemma_rows = []
    if prop in LEMMA_MODULE:
        import importlib

        from ..lemma import task_lemma

        lm = importlib.import_module(LEMMA_MODULE[prop])
        ltasks = [(LEMMA_MODULE[prop], name, bool((e[1] if isinstance(e, tuple) else {}).get("rmode")), {}) for name, e in lm.LEMMAS]
        for r in runner.pool_map(task_lemma, ltasks):
            st = Stats.from_json(r["stats"])
            total.merge(st)
            lemma_rows.append({"lemma": r["lemma"], "paths": st.paths, "queries": st.queries, "outcomes": st.outcomes})
            if st.paths == 0:
                inconclusive.append(f"lemma {r['lemma']}: no path completed (vacuous)")
            if st.capped:
                inconclusive.append(f"lemma {r['lemma']}: cap hit")
    if total.unsupported:
        inconclusive.append(f"{total.unsupported} path(s) could not be followed by the engine: {list(total.unsupported_msgs.items())[:5]}")
    if val_mismatch:
        inconclusive.append(f"{val_mismatch} trace validation(s) disagree with the real code (engine/model defect)")
    if total.paths == 0:
        inconclusive.append("no path completed (vacuous)")
    for cl, (reached, _) in total.clauses.items():
        if reached == 0:
            inconclusive.append(f"clause {cl} reached by 0 paths (vacuous)")
    cov = runner.mc_coverage(
        total, functions=FUNCTIONS[prop],
        bounds={"tier": tier, "classes": len(targets), "of_total_classes": len(classes),
                "class_selection": "one representative per plan signature" if tier == "quick" else "all classes",
                "array_lengths": "0..%d; scalar arrays also 127%s" % (opts["max_array"], "; integer arrays also 300" if prop == "C02" else ""), "length_regions_bytes": [list(r) for r in opts["regions"]],
                "shape_deviation_depth_max": opts["max_dev"], "paths_per_class_cap": opts["class_paths"],
                "integers": "every fixed-width integer field over its whole range, simultaneously", "tail_bytes": 2},
        outside=["array lengths > %d" % opts["max_array"], "payload lengths >= 2^31", "shape combinations beyond the recorded deviation depth",
                 "time-typed fields take the listed representatives inside entities (their whole value domain is decided at primitive level: lemmas listed under primitive_wire_domain_lemmas for C01/C05, otherwise C11/C12)",
                 "payload content (opaque; A3)"],
        rule="one state = one completed symbolic path of the real reader/writer for one (class, shape); distinct by construction (DFS over decision prefixes)",
        extra={"classes_checked": len(targets) - len(skipped), "classes_not_reached_within_wall_budget": len(skipped), "classes_not_reached_sample": skipped[:20],
               "schedules_exhausted": exhausted, "complete_deviation_depth_histogram": {str(k): v for k, v in depth_hist.items()},
               "primitive_wire_domain_lemmas": lemma_rows,
               "trace_validations": validated, "rebinding_report": {k: v for k, v in rep.items() if k != "__keep__" and v},
               "source_hashes": install.source_hashes()})
    cov["traces_validated_against_impl"] = validated
    samples = total.samples[:5] + [{"class": c, "paths": p, "shapes": s} for c, p, s in per_class[:3]]
    assume = {"C03": ["A1", "A2", "A3", "A4", "A5q", "A7", "A8"], "C05": ["A1", "A3", "A4", "A5", "A5q", "A7", "A8"]}.get(prop, ["A1", "A3", "A4", "A7", "A8"])
    return runner.finish(prop, tier, t0, level="model_checking", coverage=cov, assumptions=assume,
                         cex=total.cex, inconclusive=inconclusive, samples=samples)
