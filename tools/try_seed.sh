#!/bin/bash
# tools/try_seed.sh <seed dir with patch.diff> <check ids...>  : apply the patch to /repo, run the quick checks, undo.
set -u
SEED=$1; shift
cd /repo || exit 9
if [ -n "$(git status --porcelain -- src codegen)" ]; then echo "/repo is dirty"; exit 9; fi
git apply "$SEED/patch.diff" || { echo "patch does not apply"; exit 9; }
trap 'git -C /repo checkout -- . >/dev/null 2>&1' EXIT
cd /verif
for id in "$@"; do
  out=$(VERIF_TIER=${TIER:-quick} ./check $id --tier ${TIER:-quick} 2>&1); rc=$?
  echo "== $id exit=$rc"; echo "$out" | grep -E "VIOLATION|KNOWN-FINDING|INCONCLUSIVE|clause=" | cut -c1-330 | head -6
done
