"""Wire-first entity harnesses: C03 (the decoder accepts every conforming encoding, incl.
explicitly sent defaults and unknown tagged fields) and C05 (decode then encode reproduces
the bytes; idempotence).  The bytes come from the independent reference encoder kv.kref run
on a symbolic instance plus wire-level extras (forced presence of tagged fields, unknown
tags with symbolic tag number and size)."""
from __future__ import annotations

import dataclasses

import z3

from .. import kref, shapes
from ..core import Unsupported, Violation
from ..models import Sink, Src
from ..sym import SymBool, SymBytes
from . import entity
from .entity import EntityHarness, sym_tail


def hints_for(cls):
    from .c10 import hints_for as h

    return h(cls)


class WireHarness(EntityHarness):
    wire = True
    wire_only_times = False

    @classmethod
    def builder_kwargs(cls, opts):
        return dict(regions=opts["regions"], max_array=opts["max_array"], wire=cls.wire, time_symbolic=True,
                    wire_only_times=cls.wire_only_times)

    @classmethod
    def hints(cls, entity_cls):
        return hints_for(entity_cls)

    def witness(self, c, model, clause, info):
        w = super().witness(c, model, clause, info)
        model = c.notes.get("witness_model", model)
        try:
            data = shapes.concretise(SymBytes(c.notes["wire_items"]), model)
            w["bytes"] = data.hex() if len(data) <= (1 << 17) else None
        except shapes.TooLarge:
            w["bytes"] = None
        return w


class C03(WireHarness):
    prop = "C03"
    wire = True
    wire_only_times = True

    def run(self, c):
        b, x = self.build(c)
        lim = []
        data = kref.encode(x, b.extras, limits=lim)
        if lim:
            c.assume(z3.Not(z3.Or(*lim)))  # only lengths the format can represent are conforming encodings
        tail = sym_tail(c)
        c.notes["tail"] = tail
        c.notes["wire_items"] = list(data) + tail
        src = Src(SymBytes(list(data) + tail))
        try:
            y = self.r(src)
        except Unsupported:
            raise
        except Exception as e:
            c.outcome = "raised:" + type(e).__name__
            raise Violation("decoder_accepts_conforming_encoding", {"exception": type(e).__name__, "msg": str(e)[:200]})
        c.outcome = "decoded"
        exp = expected_value(x)
        eq = (y == exp)
        if type(eq) is not bool and type(eq) is not SymBool:
            eq = bool(eq)
        cons, why = kref.items_equal(src.remaining().items, tail)
        return [("decoded_values_are_the_wire_values", eq), ("exact_consumption", cons)]


class C05(WireHarness):
    """canonical encodings only: no forced defaults, no unknown tags"""

    prop = "C05"
    wire = False
    wire_only_times = True

    def run(self, c):
        from kio.serial.errors import DecodeError, OutOfBoundValue

        b, x = self.build(c)
        lim = []
        data = kref.encode(x, None, limits=lim)
        if lim:
            c.assume(z3.Not(z3.Or(*lim)))
        c.notes["wire_items"] = list(data)
        src = Src(SymBytes(list(data)))
        try:
            y = self.r(src)
        except Unsupported:
            raise
        except (DecodeError, OutOfBoundValue, ValueError, OverflowError) as e:
            # the decoder refuses this wire value (documented errors): outside "accepted input"
            c.outcome = "not_accepted:" + type(e).__name__
            return []
        except Exception as e:
            raise Violation("decoder_outcome_is_value_or_documented_error", {"exception": type(e).__name__, "msg": str(e)[:200]})
        sink = Sink()
        try:
            self.w(sink, y)
        except Unsupported:
            raise
        except Exception as e:
            c.outcome = "reencode_raised"
            raise Violation("decoded_value_is_accepted_by_encoder", {"exception": type(e).__name__, "msg": str(e)[:200]})
        c.outcome = "reencoded"
        same, why = kref.items_equal(sink.items, data)
        if why:
            c.notes["violation_info"] = {"mismatch": why}
        # idempotence: decode(encode(decode(b))) == decode(b)
        src2 = Src(SymBytes(list(sink.items)))
        try:
            y2 = self.r(src2)
        except Unsupported:
            raise
        except Exception as e:
            raise Violation("decode_encode_idempotent", {"exception": type(e).__name__})
        idem = (y2 == y)
        if type(idem) is not bool and type(idem) is not SymBool:
            idem = bool(idem)
        return [("reencoding_reproduces_bytes", same), ("decode_encode_idempotent", idem)]


def expected_value(x):
    """the Python value a faithful decoder returns for reference-encoded x: raw wire
    milliseconds become datetime/timedelta objects (or stay raw when Python cannot hold them)"""
    import datetime

    if dataclasses.is_dataclass(x) and not isinstance(x, type):
        changed = False
        kw = {}
        for f in dataclasses.fields(x):
            v = getattr(x, f.name)
            nv = expected_value(v)
            kw[f.name] = nv
            changed = changed or (nv is not v)
        return type(x)(**kw) if changed else x
    if type(x) is tuple:
        nv = tuple(expected_value(v) for v in x)
        return nv if any(a is not b for a, b in zip(nv, x)) else x
    return x


entity.HARNESS["C03"] = C03
entity.HARNESS["C05"] = C05
