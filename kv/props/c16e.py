"""C16 end to end on synthetic definitions.

A finite family of hand-crafted (plus seeded pseudo-random) message definitions in the
upstream JSON format is pushed through the REAL generator entry point
(codegen.generate_schema.main(), run in a scratch tree), the modules it writes are imported
next to the shipped package, and for every definition x declared version:

  structure  every class the definition makes visible exists, and its dataclass options,
             class variables, field names/order, annotations (array / optional / item
             type / custom type), metadata (kafka_type, tag) and defaults equal what
             kv.defref reads from the JSON itself; the version package exports it;
  bytes      for a SYMBOLIC instance of the generated class (every integer over its whole
             range, payload lengths symbolic, arrays 0..2, optional fields both ways) the
             real kio writer's output equals the encoding kv.defref derives from the
             definition (solver-decided per path), and the real reader returns the instance
             and consumes exactly those bytes;
  index      codegen.generate_index.build_index() run with the scratch tree attached lists
             exactly the shipped modules plus the generated ones.

Definitions flagged accept=True use only constructs that occur in the upstream release the
shipped schema was generated from: the generator refusing one is a violation.  accept=None
marks spellings the generator may refuse loudly (outside the supported subset); a refusal is
recorded, a silent mistranslation is still a violation.
"""
from __future__ import annotations

import dataclasses
import importlib
import io
import json
import os
import random
import shutil
import sys
import tempfile
import time
import traceback

import z3

from .. import defref, kref, shapes
from ..core import Stats, Unsupported, Violation, explore
from ..models import Src
from ..sym import SymBool, SymBytes
from .entity import EntityHarness, sym_tail

_REPO = os.environ.get("KIO_REPO", "/repo")
if _REPO not in sys.path:
    sys.path.insert(0, _REPO)


# ================================================================================================
# the definition family
# ================================================================================================
def F(name, type_, versions="0+", **kw):
    d = {"name": name, "type": type_, "versions": versions}
    d.update(kw)
    d.setdefault("about", f"The {name} field.")
    return d


def msg(name, kind, fields, valid="0-4", flexible="2+", api_key=None, commons=None):
    d = {"type": kind, "name": name, "validVersions": valid, "flexibleVersions": flexible, "fields": fields}
    if kind in ("request", "response"):
        d = {"apiKey": api_key, **d}
        if kind == "request":
            d["listeners"] = ["zkBroker", "broker"]
    if commons:
        d["commonStructs"] = commons
    return d


SCALARS = ["bool", "int8", "int16", "int32", "int64", "uint16", "uint32", "uint64", "float64", "string", "bytes", "uuid", "records"]


def family(tier="quick"):
    """-> list of groups {name, defs, accept, index}"""
    G = []
    key = [900]

    def pair(base, req_fields, resp_fields, accept=True, index=True, **kw):
        key[0] += 1
        k = kw.pop("api_key", key[0])
        rc = kw.pop("req_commons", None)
        pc = kw.pop("resp_commons", None)
        defs = []
        if req_fields is not None:
            defs.append(msg(base + "Request", "request", req_fields, api_key=k, commons=rc, **kw))
        if resp_fields is not None:
            defs.append(msg(base + "Response", "response", resp_fields, api_key=k, commons=pc, **kw))
        G.append({"name": base, "defs": defs, "accept": accept, "index": index})

    # -- every scalar type, plain, and under every version-range spelling
    pair("ZzScalars",
         [F(cap(t) + "Plain", t) for t in SCALARS],
         [F(cap(t) + "Ranged", t, r) for t, r in zip(SCALARS, ["1-3", "2", "3+", "none", "0-0", "1+", "4", "2-4", "0+", "1-2", "3-3", "0-1", "2+"])])
    # -- defaults in the spellings the upstream definitions use
    pair("ZzDefaults",
         [F("A8", "int8", default="5"), F("A16", "int16", default="-1"), F("A32", "int32", default="0x7fffffff"),
          F("A64", "int64", default="9223372036854775807"), F("Un16", "uint16", default="65535"), F("Un32", "uint32", default="0"),
          F("B1", "bool", default="true"), F("B0", "bool", default="false"), F("S", "string", default="abc"), F("SEmpty", "string", default=""),
          F("D", "float64", default="0.5"), F("DNeg", "float64", default="-1.0")],
         [F("NullStr", "string", nullableVersions="0+", default="null"), F("NullBytes", "bytes", nullableVersions="0+", default="null"),
          F("LateNull", "string", "1+", nullableVersions="2+"), F("Un64", "uint64", default="18446744073709551615"),
          F("NegHex", "int32", default="-0x10"), F("NullEmpty", "string", nullableVersions="0+", default=""), F("NullAbc", "string", "1+", nullableVersions="2+", default="abc"), F("ErrorCode", "int16", default="0"), F("I64Min", "int64", default="-9223372036854775808")])
    # -- nullability per version
    pair("ZzNullable",
         [F("S0", "string", nullableVersions="0+"), F("S2", "string", nullableVersions="2+"), F("S12", "string", nullableVersions="1-2"),
          F("SNone", "string", nullableVersions="none"), F("B2", "bytes", nullableVersions="2+"), F("R0", "records", nullableVersions="0+"),
          F("U3", "uuid", nullableVersions="3+"), F("S4", "string", "1+", nullableVersions="4")],
         [F("Node", "NodeInfo", nullableVersions="3+", fields=[F("Host", "string"), F("Port", "int32")]),
          F("Rack", "RackInfo", "2+", nullableVersions="2+", default="null", fields=[F("Name", "string", "2+", nullableVersions="2+")]),
          F("Items", "[]ItemInfo", nullableVersions="1+", fields=[F("Key", "string"), F("Val", "bytes", nullableVersions="0+")]),
          F("NeverNull", "[]OtherInfo", nullableVersions="none", fields=[F("N", "int8")])])
    # -- tagged fields
    pair("ZzTagged",
         [F("Plain", "int32"),
          F("T0", "int32", "2+", taggedVersions="2+", tag=0),
          F("T1", "string", "2+", taggedVersions="2+", tag=1, ignorable=True),
          F("T2", "bool", "2+", taggedVersions="2+", tag=2, ignorable=True, default="false"),
          F("T3", "int64", "2+", taggedVersions="2+", tag=3, default="-1"),
          F("T4", "string", "3+", taggedVersions="3+", tag=4, nullableVersions="3+", default="null"),
          F("T5", "uuid", "2+", taggedVersions="2+", tag=5, ignorable=True),
          F("T6", "bytes", "2+", taggedVersions="2+", tag=6, ignorable=True),
          F("T200", "int16", "4+", taggedVersions="4+", tag=200, ignorable=True)],
         [F("T7", "[]int32", "2+", taggedVersions="2+", tag=7),
          F("T8", "[]TaggedItem", "2+", taggedVersions="2+", tag=8, fields=[F("X", "int16"), F("Y", "string", "3+", taggedVersions="3+", tag=0)]),
          F("T9", "AllDefaults", "2+", taggedVersions="2+", tag=9, fields=[F("P", "int64", default="-1"), F("Q", "int32", default="7")]),
          F("T10", "float64", "2+", taggedVersions="2+", tag=10, ignorable=True),
          F("T11", "int32", "0+", taggedVersions="3+", tag=11, default="0"),
          F("T12", "string", "2+", taggedVersions="2+", tag=12, default="x"),
          F("Last", "int8")])
    pair("ZzTaggedStructs",
         [F("Need", "NeedStruct", "2+", taggedVersions="2+", tag=0, fields=[F("A", "int32"), F("B", "string")]),
          F("Dflt", "DfltStruct", "3+", taggedVersions="3+", tag=1, ignorable=True, fields=[F("A", "int32", default="-1"), F("B", "int64", "4+", default="-1")])],
         [F("Arr", "[]string", "2+", taggedVersions="2+", tag=1, ignorable=True),
          F("ThrottleTimeMs", "int32", "2+", taggedVersions="2+", tag=3, ignorable=True)])
    pair("ZzIgnorableBool", [F("Flag", "bool", "2+", taggedVersions="2+", tag=0, ignorable=True), F("ErrorCode", "int16", "3+", taggedVersions="3+", tag=2, ignorable=True)], None)
    pair("ZzIgnorableNumbers",
         [F("N8", "int8", "2+", taggedVersions="2+", tag=0, ignorable=True), F("N32", "int32", "2+", taggedVersions="2+", tag=1, ignorable=True),
          F("M16", "uint16", "2+", taggedVersions="2+", tag=2, ignorable=True), F("N64", "int64", "2+", taggedVersions="2+", tag=3, ignorable=True),
          F("M32", "uint32", "2+", taggedVersions="2+", tag=4, ignorable=True), F("Dbl", "float64", "2+", taggedVersions="2+", tag=5, ignorable=True)], None)
    pair("ZzIgnorableUntagged", [F("A", "int32", "1+", ignorable=True), F("B", "string", "2+", ignorable=True, nullableVersions="2+"),
                                 F("C", "bool", "3+", ignorable=True, default="true")], None)
    # -- arrays
    pair("ZzArrays",
         [F(cap(t) + "s", "[]" + t) for t in ["bool", "int8", "int16", "int32", "int64", "uint16", "float64", "string", "uuid", "bytes"]],
         [F("Outer", "[]OuterItem", fields=[F("Name", "string"), F("Inner", "[]InnerItem", fields=[F("Index", "int32"), F("Ids", "[]int64", "1+")]),
                                              F("Leaf", "LeafItem", "1+", fields=[F("Z", "int8")])]),
          F("Ranged", "[]int32", "1-3"), F("LateItems", "[]LateItem", "3+", fields=[F("Q", "uint32")])])
    pair("ZzNullableScalarArrays", [F("Keys", "[]string", nullableVersions="0+"), F("Ids", "[]int32", nullableVersions="1+")], None)
    # -- common structs
    cs = [{"name": "SharedPart", "versions": "0+", "fields": [F("Index", "int32"), F("Note", "string", "1+", nullableVersions="2+"),
                                                              F("Extra", "int64", "3+", taggedVersions="3+", tag=0, default="-1")]}]
    pair("ZzCommon",
         [F("First", "[]SharedPart"), F("Second", "[]SharedPart", "1+", nullableVersions="2+"), F("Only", "SharedPart", "2+")],
         [F("Parts", "[]SharedPart", "0+"), F("Wrapped", "[]Wrapper", fields=[F("Inner", "[]SharedPart"), F("W", "int8")])],
         req_commons=cs, resp_commons=cs)
    # -- special names
    pair("ZzTimes",
         [F("TimeoutMs", "int32"), F("SessionTimeoutMs", "int32", "1+", default="30000"), F("RetentionTimeMs", "int64", default="-1"),
          F("MaxTimestampMs", "int64"), F("LogAppendTimeMs", "int64", default="-1"),
          F("RebalanceTimeoutMs", "int32", "1+", default="-1")],
         [F("ThrottleTimeMs", "int32", "1+", ignorable=True), F("ErrorCode", "int16"),
          F("Parts", "[]PartResult", fields=[F("PartitionErrorCode", "int16"), F("ErrorCode", "int16", "2+"), F("ExpiryTimestampMs", "int64", "1+")]),
          F("SessionLifetimeMs", "int64", "1+", default="0", ignorable=True), F("IssueTimestampMs", "int64", "3+"),
          F("timeoutMs", "int32", "2+", default="60000")])
    # -- entity types
    pair("ZzEntityTypes",
         [F("BrokerId", "int32", entityType="brokerId"), F("Topic", "string", entityType="topicName"), F("Group", "string", entityType="groupId", nullableVersions="1+"),
          F("Gadget", "int64", entityType="gadgetId", default="-1"), F("Maker", "string", entityType="makerName", default=""),
          F("Replicas", "[]int32", entityType="brokerId"), F("Names", "[]string", "1+", entityType="topicName"),
          F("Producer", "int64", "2+", entityType="producerId", taggedVersions="2+", tag=0, default="-1")],
         [F("Txn", "string", entityType="transactionalId", nullableVersions="0+"), F("Gadgets", "[]int64", entityType="gadgetId"),
          F("Nested", "[]EntHolder", fields=[F("BrokerId", "int32", entityType="brokerId", mapKey=True)])])
    # -- names
    pair("ZzNames",
         [F("ISRReplicas", "[]int32"), F("V3AndBelow", "bool"), F("Type", "int8"), F("Id", "int32"), F("Filter", "int8"), F("Format", "int16"),
          F("Range", "int64"), F("Len", "int32"), F("Max", "int32"), F("Hash", "int8"), F("A", "int8"), F("WhatIsQ", "bool"), F("InSyncReplicas", "[]int32"),
          F("Ab", "int8"), F("IPAddress", "int8"), F("Topic2Name", "string"), F("lowerFirst", "int32")],
         [F("Min", "int32"), F("Input", "int8"), F("Object", "ObjectHolder", fields=[F("Value", "int8"), F("Key", "int8"), F("Any", "int8"), F("Set", "[]int32")]),
          F("Next", "int32"), F("Iter", "int64"), F("Vars", "[]int8"), F("Name", "string"), F("Topics", "[]TopicX", fields=[F("Bin", "int8"), F("Oct", "int8")])], valid="0-1", flexible="1+")
    # -- versions omitted (taggedVersions stands in)
    pair("ZzVersionsOmitted",
         [{"name": "OnlyTagged", "type": "int32", "taggedVersions": "3+", "tag": 0, "ignorable": True, "about": "x"}, F("Z", "int8")], None)
    # -- flexibility variants and version windows
    pair("ZzNeverFlexible", [F("A", "string", nullableVersions="1+"), F("B", "[]int32"), F("C", "[]NfItem", fields=[F("D", "bytes")])],
         [F("ErrorCode", "int16"), F("Msg", "string", nullableVersions="0+")], flexible="none", valid="0-2")
    pair("ZzAlwaysFlexible", [F("A", "string", nullableVersions="0+"), F("B", "[]int32"), F("T", "int32", taggedVersions="0+", tag=0, default="9"),
                              F("C", "[]AfItem", nullableVersions="0+", fields=[F("D", "bytes")])],
         [F("ThrottleTimeMs", "int32"), F("Ok", "bool")], flexible="0+", valid="0-1")
    pair("ZzWindow", [F("A", "int32", "3+"), F("B", "string", "4+"), F("C", "int16", "0-3"), F("D", "int8", "5")], [F("E", "int64", "4-5")], valid="3-5", flexible="4+")
    pair("ZzSingleVersion", [F("A", "int32")], [F("B", "int32")], valid="0", flexible="none")
    pair("ZzFlexWindow", [F("A", "string"), F("T", "int8", "1-2", taggedVersions="1-2", tag=0)], None, valid="0-3", flexible="1-2")
    pair("ZzTaggedWindow", [F("A", "int8"), F("T", "int16", "2-3", taggedVersions="2-3", tag=0, default="3"), F("U", "string", "1-3", taggedVersions="2-3", tag=1, default="u")],
         [F("V", "[]int8", "3", taggedVersions="3", tag=0)], valid="0-4", flexible="1+")
    # -- header-schema special cases (kept out of the index comparison: they reuse real API keys)
    pair("ZzShutdownLike", [F("BrokerId", "int32", entityType="brokerId")], [F("ErrorCode", "int16")], api_key=7, index=False, valid="0-3", flexible="3+")
    pair("ZzApiVersionsLike", [F("ClientSoftwareName", "string", "3+")], [F("ErrorCode", "int16"), F("ThrottleTimeMs", "int32", "1+")], api_key=18, index=False, valid="0-3", flexible="3+")
    # -- header and data kinds
    G.append({"name": "ZzEnvelopeHeader", "accept": True, "index": True, "defs": [msg("ZzEnvelopeHeader", "header", [
        F("RequestApiKey", "int16"), F("CorrelationId", "int32"), F("ClientId", "string", "1+", nullableVersions="1+"),
        F("Trace", "uuid", "2+", taggedVersions="2+", tag=0, ignorable=True)], valid="0-2", flexible="2+")]})
    G.append({"name": "ZzStateRecord", "accept": True, "index": True, "defs": [msg("ZzStateRecord", "data", [
        F("Group", "string", entityType="groupId"), F("Generation", "int32"), F("Members", "[]MemberState", fields=[F("MemberId", "string"), F("Assignment", "bytes")]),
        F("CurrentStateTimestamp", "int64", "1+", default="-1", ignorable=True)], valid="0-1", flexible="1+")]})
    # -- spellings outside what the upstream release uses: the generator may refuse them loudly
    pair("ZzJsonNumberDefault", [{"name": "N", "type": "int32", "versions": "0+", "default": 5}], None, accept=None, index=False)
    pair("ZzJsonBoolDefault", [{"name": "N", "type": "bool", "versions": "0+", "default": True}], None, accept=None, index=False)
    pair("ZzJsonFloatDefault", [{"name": "N", "type": "float64", "versions": "0+", "default": 0.25}], None, accept=None, index=False)
    pair("ZzUnlistedMs", [F("SomethingMs", "int32")], None, accept=None, index=False)
    # -- constructs that do not occur in the upstream release: what the generator does with them is recorded, not judged
    pair("ZzObsNullableCommonSingle", [F("One", "SharedPart", "2+", nullableVersions="2+")], None, accept="observe", index=False, req_commons=cs)
    pair("ZzObsRequiredTaggedUuid", [F("T5", "uuid", "2+", taggedVersions="2+", tag=5)], None, accept="observe", index=False)
    pair("ZzObsIgnorableTaggedStruct", [F("Ign", "IgnStruct", "2+", taggedVersions="2+", tag=1, ignorable=True, fields=[F("A", "int32")])], None, accept="observe", index=False)
    pair("ZzObsNullableTaggedStruct", [F("NullT", "NullTStruct", "3+", taggedVersions="3+", tag=0, nullableVersions="3+", default="null", fields=[F("A", "int32")])], None, accept="observe", index=False)
    pair("ZzObsTaggedRecords", [F("Recs", "records", "2+", taggedVersions="2+", tag=0)], None, accept="observe", index=False)
    pair("ZzObsRequiredTaggedBool", [F("Flag", "bool", "2+", taggedVersions="2+", tag=0)], None, accept="observe", index=False)
    pair("ZzObsNullableTaggedNoDefault", [F("S", "string", "2+", taggedVersions="2+", tag=0, nullableVersions="2+")], None, accept="observe", index=False)
    pair("ZzObsNamesOfImports", [F("I32", "int32"), F("Field", "int8"), F("Uuid", "uuid")], None, accept="observe", index=False)
    n_random = 6 if tier == "quick" else 60
    rnd = random.Random(20260927)
    for i in range(n_random):
        G.append(random_group(rnd, i))
    return G


def cap(s):
    return s[0].upper() + s[1:]


def random_group(rnd, i):
    """a seeded pseudo-random well-formed request definition built from the same vocabulary"""
    hi = rnd.choice([1, 2, 3, 4])
    first_flex = rnd.choice([0, 1, 2, hi, hi + 1])
    flexible = "none" if first_flex > hi else f"{first_flex}+"
    names = iter(f"R{i}F{j}" for j in range(100))
    struct_names = iter(f"R{i}S{j}" for j in range(100))

    def vrange():
        k = rnd.random()
        a = rnd.randint(0, hi)
        if k < 0.5:
            return "0+"
        if k < 0.75:
            return f"{a}+"
        if k < 0.9:
            return f"{a}-{rnd.randint(a, hi)}"
        return str(a)

    def fields(depth, n):
        out = []
        tags = iter(range(50))
        for _ in range(n):
            k = rnd.random()
            nm = next(names)
            vr = vrange()
            lo = defref.rng(vr)[0]
            f = None
            if k < 0.45:
                t = rnd.choice(SCALARS)
                f = F(nm, t, vr)
                if t in ("string", "bytes", "records") and rnd.random() < 0.4:
                    f["nullableVersions"] = f"{rnd.randint(0, hi)}+"
                    if t == "string" and rnd.random() < 0.5 and f["nullableVersions"] == "0+":
                        f["default"] = "null"
                elif t in ("int8", "int16", "int32", "int64") and rnd.random() < 0.4:
                    f["default"] = rnd.choice(["0", "-1", "1", "0x7f", "100"])
                elif t == "bool" and rnd.random() < 0.4:
                    f["default"] = rnd.choice(["true", "false"])
                if first_flex <= hi and t != "records" and rnd.random() < 0.3:
                    tv = max(lo, first_flex)
                    f["versions"] = f"{tv}+"
                    f["taggedVersions"] = f"{tv}+"
                    f["tag"] = next(tags)
                    if "nullableVersions" in f:
                        f["nullableVersions"] = f"{tv}+"
                        f["default"] = "null"
                    if rnd.random() < 0.5 or t == "uuid":
                        f["ignorable"] = True
                    if t == "bool":
                        f.setdefault("default", "false")
            elif k < 0.65:
                t = rnd.choice(["int8", "int16", "int32", "int64", "string", "uuid", "bool", "float64"])
                f = F(nm, "[]" + t, vr)
            elif k < 0.85 and depth < 2:
                f = F(nm, "[]" + next(struct_names), vr, fields=fields(depth + 1, rnd.randint(1, 3)))
                if rnd.random() < 0.3:
                    f["nullableVersions"] = f"{rnd.randint(0, hi)}+"
            elif depth < 2 and first_flex <= hi:
                f = F(nm, next(struct_names), vr, fields=fields(depth + 1, rnd.randint(1, 3)))
                if rnd.random() < 0.4:
                    nv = max(lo, first_flex)
                    f["nullableVersions"] = f"{nv}+"
            else:
                f = F(nm, "int32", vr)
            out.append(f)
        return out

    d = msg(f"ZzRand{i}Request", "request", fields(0, rnd.randint(2, 6)), valid=f"0-{hi}", flexible=flexible, api_key=2000 + i)
    return {"name": f"ZzRand{i}", "defs": [d], "accept": True, "index": False}


# ================================================================================================
# running the real generator
# ================================================================================================
def _build_tag():
    import codegen

    return codegen.build_tag


def generate(defs, scratch):
    """Run the real codegen.generate_schema.main() in `scratch` on the given definitions, in a
    forked child (the generator keeps module-level state).  -> None | 'ExcType: message'"""
    tag = _build_tag()
    sdir = os.path.join(scratch, "schema", tag)
    os.makedirs(sdir, exist_ok=True)
    os.makedirs(os.path.join(scratch, "src", "kio", "schema"), exist_ok=True)
    for d in defs:
        with open(os.path.join(sdir, d["name"] + ".json"), "w") as fh:
            fh.write("// Licensed to the Apache Software Foundation (ASF) under one or more\n// contributor license agreements.\n\n")
            fh.write(json.dumps(d, indent=2))
            fh.write("\n")
    err_path = os.path.join(scratch, "generator_error.txt")
    pid = os.fork()
    if pid == 0:
        code = 0
        try:
            os.chdir(scratch)
            devnull = os.open(os.devnull, os.O_WRONLY)
            os.dup2(devnull, 1)
            sys.stdout = open(os.devnull, "w")
            import codegen.generate_schema as g

            g.main()
        except BaseException as e:
            code = 3
            try:
                with open(err_path, "w") as fh:
                    fh.write(f"{type(e).__name__}: {str(e)[:300]}")
            except Exception:
                pass
        finally:
            os._exit(code)
    _, status = os.waitpid(pid, 0)
    if status != 0:
        try:
            with open(err_path) as fh:
                return fh.read()
        except OSError:
            return f"generator process ended with status {status}"
    return None


class Attached:
    """makes the scratch tree importable as part of kio.schema (after the shipped package) and
    adds the custom types it defines to kio.schema.types"""

    def __init__(self, scratch):
        self.dir = os.path.join(scratch, "src", "kio", "schema")

    def __enter__(self):
        import kio.schema
        import kio.schema.types as T

        self.before = set(sys.modules)
        kio.schema.__path__.append(self.dir)
        importlib.invalidate_caches()
        self.added = []
        tp = os.path.join(self.dir, "types.py")
        if os.path.exists(tp):
            ns = {"__name__": "kio.schema.types"}
            with open(tp) as fh:
                exec(compile(fh.read(), tp, "exec"), ns)
            for k, v in ns.items():
                if k.startswith("__") or hasattr(T, k):
                    continue
                setattr(T, k, v)
                self.added.append(k)
        return self

    def __exit__(self, *a):
        import kio.schema
        import kio.schema.types as T

        try:
            kio.schema.__path__.remove(self.dir)
        except ValueError:
            pass
        for k in self.added:
            try:
                delattr(T, k)
            except AttributeError:
                pass
        for m in set(sys.modules) - self.before:
            if m.startswith("kio.schema.zz_"):
                mod = sys.modules.pop(m)
                parent, _, leaf = m.rpartition(".")
                if parent in sys.modules and getattr(sys.modules[parent], leaf, None) is mod:
                    try:
                        delattr(sys.modules[parent], leaf)
                    except AttributeError:
                        pass
        importlib.invalidate_caches()
        return False


def module_name(defn, version):
    return f"kio.schema.{defref.api_package(defn['name'])}.v{version}.{defn['type']}"


# ================================================================================================
# structure
# ================================================================================================
def py_types():
    import uuid

    from kio.schema.errors import ErrorCode
    from kio.static import primitive as P

    return {"int8": P.i8, "int16": P.i16, "int32": P.i32, "int64": P.i64, "uint16": P.u16, "uint32": P.u32, "uint64": P.u64,
            "float64": P.f64, "string": str, "bytes": bytes, "bool": bool, "uuid": uuid.UUID, "records": P.Records, "error_code": ErrorCode,
            "timedelta_i32": P.i32Timedelta, "timedelta_i64": P.i64Timedelta, "datetime_i64": P.TZAware}


SUBCLASSED = {"string", "int8", "int16", "int32", "int64", "uint16", "uint32", "uint64", "float64"}


def _same_value(a, b):
    if a is dataclasses.MISSING or b is dataclasses.MISSING:
        return a is b
    if a is None or b is None:
        return a is b
    if isinstance(a, bool) != isinstance(b, bool):
        return False
    if isinstance(a, float) != isinstance(b, float):
        return False
    try:
        return bool(a == b)
    except Exception:
        return False


def structure_problems(defn, version):
    """-> list of {kind, struct, field, field_kind, detail}"""
    from kio.static.constants import EntityType

    out = []

    def bad(kind, struct, field, detail, field_kind=None):
        out.append({"kind": kind, "struct": struct, "field": field, "field_kind": field_kind, "detail": detail})

    name = module_name(defn, version)
    try:
        mod = importlib.import_module(name)
    except Exception as e:
        bad("module_import", None, None, f"{name}: {type(e).__name__}: {str(e)[:160]}")
        return out
    try:
        structs = defref.structures(defn, version)
    except Exception as e:
        raise Unsupported(f"definition reading failed: {type(e).__name__}: {e}")
    commons = defref.commons_of(defn)
    flexible = defref.is_flexible(defn, version)
    classes = {n: getattr(mod, n, None) for n in structs}
    PT = py_types()
    hdr = defref.header_module(defn, version)
    for sname, specs in structs.items():
        cls = classes[sname]
        if cls is None or not dataclasses.is_dataclass(cls):
            bad("class_missing", sname, None, f"{name} has no dataclass {sname}")
            continue
        p = cls.__dataclass_params__
        if not (p.frozen and p.eq and getattr(p, "kw_only", True) and "__slots__" in cls.__dict__):
            bad("dataclass_options", sname, None, f"{sname}: frozen={p.frozen} eq={p.eq} kw_only={getattr(p, 'kw_only', None)} slots={'__slots__' in cls.__dict__}")
        top = sname == defn["name"]
        want_type = getattr(EntityType, defn["type"]) if top else EntityType.nested
        if getattr(cls, "__type__", None) is not want_type:
            bad("entity_type", sname, None, f"{sname}.__type__ = {getattr(cls, '__type__', None)!r}, definition says {want_type!r}")
        if getattr(cls, "__version__", None) != version:
            bad("version", sname, None, f"{sname}.__version__ = {getattr(cls, '__version__', None)!r} in the v{version} module")
        if getattr(cls, "__flexible__", None) is not flexible:
            bad("flexible", sname, None, f"{sname}.__flexible__ = {getattr(cls, '__flexible__', None)!r}, flexibleVersions {defn['flexibleVersions']!r} says {flexible} for v{version}")
        if hdr is not None:
            if getattr(cls, "__api_key__", None) != defn["apiKey"]:
                bad("api_key", sname, None, f"{sname}.__api_key__ = {getattr(cls, '__api_key__', None)!r}, definition says {defn['apiKey']}")
            want_hdr = getattr(importlib.import_module(hdr[0]), hdr[1])
            if getattr(cls, "__header_schema__", None) is not want_hdr:
                got = getattr(cls, "__header_schema__", None)
                bad("header_schema", sname, None, f"{sname}.__header_schema__ is {getattr(got, '__module__', None)}.{getattr(got, '__name__', got)}, expected {hdr[0]}.{hdr[1]}")
        elif hasattr(cls, "__api_key__") or hasattr(cls, "__header_schema__"):
            bad("api_key", sname, None, f"{sname} of a {defn['type']} definition carries an API key / header schema")
        fs = dataclasses.fields(cls)
        got_names = [f.name for f in fs]
        want_names = [s.attr for s in specs]
        if got_names != want_names:
            bad("field_names", sname, None, f"{sname} v{version}: fields {got_names}, definition gives {want_names}")
            continue
        try:
            hints = kref.field_types(cls)
        except Exception as e:
            bad("annotations", sname, None, f"{sname}: annotations do not resolve: {type(e).__name__}: {str(e)[:120]}")
            continue
        for f, s in zip(fs, specs):
            where = f"{sname}.{f.name} (definition field {s.json_name!r}, v{version})"
            md = dict(f.metadata)
            want_md = {}
            if s.kt is not None:
                want_md["kafka_type"] = s.kt
            if s.tag is not None:
                want_md["tag"] = s.tag
            if md != want_md:
                kind = "tag" if md.get("tag") != want_md.get("tag") else "kafka_type"
                bad(kind, sname, s.json_name, f"{where}: metadata {md}, definition gives {want_md}", s.kind)
            try:
                is_array, nullable, inner, item_nullable = kref.split_annotation(hints[f.name])
            except Exception as e:
                bad("annotations", sname, s.json_name, f"{where}: {type(e).__name__}: {str(e)[:120]}", s.kind)
                continue
            if is_array != s.is_array():
                bad("arrayness", sname, s.json_name, f"{where}: annotation {hints[f.name]!r}", s.kind)
                continue
            if nullable != s.nullable:
                bad("nullability", sname, s.json_name, f"{where}: annotation {'accepts' if nullable else 'does not accept'} None, definition says {'nullable' if s.nullable else 'not nullable'}", s.kind)
            if s.struct is not None:
                if inner is not classes.get(s.struct):
                    bad("item_type", sname, s.json_name, f"{where}: annotation names {inner!r}, expected the {s.struct} class of this module", s.kind)
            else:
                base = PT[s.kt]
                if item_nullable != (is_array and s.kt == "uuid"):
                    bad("nullability", sname, s.json_name, f"{where}: item-level None {'accepted' if item_nullable else 'not accepted'}", s.kind)
                if s.entity_type:
                    ok = getattr(inner, "__name__", None) == defref.cap_first(s.entity_type)
                    if ok and s.kt in SUBCLASSED:
                        ok = isinstance(inner, type) and issubclass(inner, base)
                    elif ok:
                        ok = getattr(inner, "__supertype__", None) is base
                    if not ok:
                        bad("item_type", sname, s.json_name, f"{where}: annotation names {inner!r}, expected custom type {defref.cap_first(s.entity_type)} over {base.__name__}", s.kind)
                elif inner is not base:
                    bad("item_type", sname, s.json_name, f"{where}: annotation names {inner!r}, expected {base!r}", s.kind)
            if f.default_factory is not dataclasses.MISSING:
                bad("default", sname, s.json_name, f"{where}: default_factory set", s.kind)
            try:
                want = defref.expected_default(s, version, commons, classes)
            except Unsupported:
                raise
            if not _same_value(f.default, want):
                bad("default", sname, s.json_name, f"{where}: default {f.default!r}, definition gives {'<required>' if want is dataclasses.MISSING else repr(want)}", s.kind)
    for k, v in vars(mod).items():
        if dataclasses.is_dataclass(v) and isinstance(v, type) and v.__module__ == mod.__name__ and k not in structs:
            bad("extra_class", k, None, f"{name} defines {k}, which the definition does not make visible in v{version}")
    try:
        pkg = importlib.import_module(name.rpartition(".")[0])
        if getattr(pkg, defn["name"], None) is not classes[defn["name"]] or defn["name"] not in getattr(pkg, "__all__", ()):
            bad("export", defn["name"], None, f"{pkg.__name__} does not export {defn['name']}")
    except Exception as e:
        bad("export", defn["name"], None, f"version package import: {type(e).__name__}: {str(e)[:120]}")
    return out


# ================================================================================================
# bytes
# ================================================================================================
class Bytes(EntityHarness):
    prop = "C16"

    def __init__(self, cls, shape, opts, defn, version):
        super().__init__(cls, shape, opts)
        mod = sys.modules[cls.__module__]
        self.enc = defref.Encoder(defn, version, {n: getattr(mod, n) for n in defref.structures(defn, version)})
        self.defn = defn
        self.version = version

    def run(self, c):
        b, x = self.build(c)
        sink = self.write(c, x)
        if sink is None:
            return self.refusal_obligation(c, x)
        lim = []
        old = kref._limits
        kref._limits = lim
        try:
            ref = self.enc.encode(x)
        finally:
            kref._limits = old
        eq, why = kref.items_equal(sink.items, ref)
        if why:
            c.notes["violation_info"] = {"mismatch": why}
        obl = [("bytes_are_what_the_definition_prescribes", eq)]
        if lim:
            obl.append(("written_only_when_representable", z3.Not(z3.Or(*lim))))
        tail = sym_tail(c)
        c.notes["tail"] = tail
        src = Src(SymBytes(sink.items + tail))
        try:
            y = self.r(src)
        except Unsupported:
            raise
        except Exception as e:
            raise Violation("generated_class_reads_its_own_encoding", {"exception": type(e).__name__, "msg": str(e)[:200]})
        eqv = (y == x)
        if type(eqv) is not bool and type(eqv) is not SymBool:
            eqv = bool(eqv)
        cons, _ = kref.items_equal(src.remaining().items, tail)
        c.outcome = "encoded+decoded"
        return obl + [("generated_class_round_trips", eqv), ("exact_consumption", cons)]

    def witness(self, c, model, clause, info):
        b = c.notes["builder"]
        m = shapes.prefer_small(c, b.leaves, extra=c.notes.get("neg_clause")) or model
        shapes.set_payload_classes(c, m)
        try:
            inst = shapes.concretise(c.notes["instance"], m)
            w = {"class": shapes.class_id(self.cls), "instance": shapes.to_jsonable(inst), "shape": self.shape}
            if "tail" in c.notes:
                w["tail"] = shapes.concretise(c.notes["tail"], m)
        finally:
            shapes.FILL_CLASS.clear()
            shapes.FILL_LITERAL.clear()
        c.notes["witness_model"] = m
        w["definition_name"] = self.defn["name"]
        w["version"] = self.version
        return w


def validate(c):
    """trace validation: the symbolic writer output evaluated under a model of this path equals what the
    real writer produces for the concretised instance"""
    b = c.notes.get("builder")
    items = c.notes.get("sink_items")
    if b is None or items is None:
        return None
    m = shapes.prefer_small(c, b.leaves)
    if m is None:
        return None
    shapes.set_payload_classes(c, m)
    try:
        inst = shapes.concretise(c.notes["instance"], m)
        sym = shapes.concretise(SymBytes(items), m)
    except shapes.TooLarge:
        return None
    finally:
        shapes.FILL_CLASS.clear()
        shapes.FILL_LITERAL.clear()
    from kio.serial import entity_writer

    buf = io.BytesIO()
    entity_writer(type(inst))(buf, inst)
    return buf.getvalue() == sym


def explore_class(cls, defn, version, opts, stats, deadline):
    n = 0
    val = [0, 0]
    for shape, depth in shapes.shape_schedule(cls, opts["max_shapes"], opts["max_dev"], regions=opts["regions"], max_array=opts["max_array"]):
        if time.time() > deadline:
            return n, False, val
        h = Bytes(cls, shape, opts, defn, version)
        first = [n < 2]

        def on_path(c, first=first):
            if first[0]:
                first[0] = False
                try:
                    v = validate(c)
                except Exception:
                    v = None
                if v is True:
                    val[0] += 1
                elif v is False:
                    val[1] += 1

        explore(h, max_paths=opts["per_shape_paths"], stats=stats, deadline=deadline, range_bound=opts["max_array"] + 1, on_path=on_path)
        n += 1
    return n, True, val


def tier_opts(tier):
    if tier == "quick":
        return dict(regions=shapes.REGIONS_QUICK, max_array=2, max_shapes=10, max_dev=1, per_shape_paths=16, class_seconds=20)
    return dict(regions=shapes.REGIONS_ALL, max_array=2, max_shapes=150, max_dev=2, per_shape_paths=48, class_seconds=90)


# ================================================================================================
# one group = one generator run
# ================================================================================================
def scratch_dir():
    return tempfile.mkdtemp(prefix="kv_c16_")


def units(groups):
    """one unit = one (group, definition, version): its own generator run"""
    out = []
    for g in groups:
        for di, d in enumerate(g["defs"]):
            try:
                vs = defref.versions_of(d)
            except Exception:
                vs = [0]
            for v in vs:
                out.append((g, di, v))
    return out


def task_unit(args):
    group, di, v, tier = args
    t0 = time.time()
    opts = tier_opts(tier)
    d = group["defs"][di]
    res = {"group": group["name"], "definition": d["name"], "version": v, "accept": group["accept"], "rejected": None, "problems": [], "stats": None,
           "explored": 0, "shapes": 0, "unfinished": 0, "validated": 0, "validation_mismatch": 0, "harness_error": None}
    stats = Stats()
    scratch = scratch_dir()
    try:
        err = generate(group["defs"], scratch)
        if err is not None:
            res["rejected"] = err
            return res
        with Attached(scratch):
            probs = structure_problems(d, v)
            for p in probs:
                p.update(definition=d["name"], version=v)
            res["problems"] = probs
            blocking = any(p["kind"] in ("module_import", "class_missing", "field_names", "annotations", "arrayness", "item_type") for p in probs)
            cls = None
            if not blocking:
                cls = getattr(importlib.import_module(module_name(d, v)), d["name"])
                try:
                    from kio.serial import entity_reader, entity_writer

                    entity_writer(cls)
                    entity_reader(cls)
                except Exception as e:
                    probs.append({"kind": "serial_rejects_class", "struct": d["name"], "field": None, "field_kind": None, "definition": d["name"], "version": v,
                                  "detail": f"kio.serial cannot build a writer/reader for the generated {d['name']} v{v}: {type(e).__name__}: {str(e)[:160]}"})
                    cls = None
            if cls is not None:
                n, done, val = explore_class(cls, d, v, opts, stats, time.time() + opts["class_seconds"])
                for cx in stats.cex:
                    if isinstance(cx.get("witness"), dict):
                        cx["witness"]["definitions"] = group["defs"]
                res["explored"] = 1
                res["shapes"] = n
                res["unfinished"] = 0 if done else 1
                res["validated"], res["validation_mismatch"] = val
    except Unsupported as e:
        res["harness_error"] = f"Unsupported: {e}"
    except Exception as e:
        res["harness_error"] = f"{type(e).__name__}: {e}\n{traceback.format_exc()[-800:]}"
    finally:
        shutil.rmtree(scratch, ignore_errors=True)
    res["stats"] = stats.to_json()
    res["wall"] = round(time.time() - t0, 2)
    return res


def task_index(args):
    """all index-eligible definitions through ONE generator run, then the real build_index()"""
    groups, = args
    defs = [d for g in groups if g["index"] and g["accept"] is True for d in g["defs"]]
    scratch = scratch_dir()
    try:
        err = generate(defs, scratch)
        if err is not None:
            return {"error": "generator refused the combined family: " + err, "problems": []}
        with Attached(scratch):
            return {"error": None, "problems": index_problems(defs), "definitions": len(defs)}
    except Exception as e:
        return {"error": f"{type(e).__name__}: {e}\n{traceback.format_exc()[-600:]}", "problems": []}
    finally:
        shutil.rmtree(scratch, ignore_errors=True)


def index_problems(defs):
    from codegen.generate_index import build_index

    from .c09 import truth

    try:
        name_map, key_map = build_index()
    except Exception as e:
        return [f"build_index raised {type(e).__name__}: {str(e)[:200]}"]
    got = {(n, int(v), et.name): p for n, vm in name_map.items() for v, tm in vm.items() for et, p in tm.items()}
    want = {k: f"{mod.__name__}:{cls.__qualname__}" for k, (mod, cls) in truth().items() if not k[0].startswith("zz_")}
    for d in defs:
        for v in defref.versions_of(d):
            want[(defref.api_package(d["name"]), v, d["type"])] = f"{module_name(d, v)}:{d['name']}"
    bad = []
    if got != want:
        missing = sorted(set(want) - set(got))[:3]
        extra = sorted(set(got) - set(want))[:3]
        diff = [k for k in want if k in got and got[k] != want[k]][:3]
        bad.append(f"generated index differs from the generated modules: missing {missing} extra {extra} wrong path {diff}")
    for d in defs:
        if "apiKey" in d and key_map.get(d["apiKey"]) != defref.api_package(d["name"]):
            bad.append(f"api_key_map[{d['apiKey']}] = {key_map.get(d['apiKey'])!r}, expected {defref.api_package(d['name'])!r}")
            break
    return bad


# ================================================================================================
# replay (clean process, real kio, real generator)
# ================================================================================================
def replay(w, clause):
    defs = w["definitions"]
    scratch = scratch_dir()
    try:
        err = generate(defs, scratch)
        if "rejected" in w:
            return {"reproduced": err is not None, "sig": {"kind": "generator_refuses", "group": w.get("group")}, "detail": f"generator on {w.get('group')}: {err}"}
        if err is not None:
            return {"reproduced": None, "error": "generator refused on replay: " + err}
        with Attached(scratch):
            if "index" in w:
                bad = index_problems(defs)
                return {"reproduced": bool(bad), "sig": {"kind": "index"}, "detail": "; ".join(bad)[:500]}
            d = next(x for x in defs if x["name"] == w["definition_name"])
            v = w["version"]
            if "problem" in w:
                p0 = w["problem"]
                for p in structure_problems(d, v):
                    if (p["kind"], p["struct"], p["field"]) == (p0["kind"], p0["struct"], p0["field"]):
                        return {"reproduced": True, "sig": problem_sig(p), "detail": p["detail"]}
                if p0["kind"] == "serial_rejects_class":
                    try:
                        from kio.serial import entity_reader, entity_writer

                        cls = getattr(importlib.import_module(module_name(d, v)), d["name"])
                        entity_writer(cls)
                        entity_reader(cls)
                    except Exception as e:
                        return {"reproduced": True, "sig": {"kind": "structure", "problem": "serial_rejects_class", "exception": type(e).__name__}, "detail": f"{d['name']} v{v}: {type(e).__name__}: {str(e)[:200]}"}
                return {"reproduced": False, "detail": "generated structure equals the definition's reading"}
            return replay_bytes(w, d, v)
    finally:
        shutil.rmtree(scratch, ignore_errors=True)


def problem_sig(p):
    sig = {"kind": "structure", "problem": p["kind"], "field_kind": p["field_kind"]}
    if p["kind"] == "nullability":
        sig["direction"] = "definition_nullable_class_not" if "does not accept None, definition says nullable" in p["detail"] else "other"
    return sig


def replay_bytes(w, d, v):
    from kio.serial import entity_reader, entity_writer
    from kio.serial.errors import OutOfBoundValue

    inst = shapes.from_jsonable(w["instance"])
    cls = type(inst)
    mod = sys.modules[cls.__module__]
    enc = defref.Encoder(d, v, {n: getattr(mod, n) for n in defref.structures(d, v)})
    lim = []
    old = kref._limits
    kref._limits = lim
    try:
        ref = bytes(enc.encode(inst))
    finally:
        kref._limits = old
    buf = io.BytesIO()
    try:
        entity_writer(cls)(buf, inst)
    except OutOfBoundValue as e:
        return {"reproduced": not lim, "sig": {"kind": "refused"}, "detail": f"writer refused: {e}"}
    except Exception as e:
        return {"reproduced": True, "sig": {"kind": "writer_raises", "exception": type(e).__name__}, "detail": f"writer raised {type(e).__name__}: {e}"}
    data = buf.getvalue()
    if data != ref:
        k = next((i for i in range(min(len(data), len(ref))) if data[i] != ref[i]), min(len(data), len(ref)))
        return {"reproduced": True, "sig": {"kind": "bytes_differ"},
                "detail": f"{d['name']} v{v}: first difference at byte {k}: kio {data[max(0, k - 4):k + 8].hex()} definition {ref[max(0, k - 4):k + 8].hex()} (lengths {len(data)}/{len(ref)})"}
    tail = bytes(w.get("tail", [0, 0]))
    src = io.BytesIO(data + tail)
    try:
        out = entity_reader(cls)(src)
    except Exception as e:
        return {"reproduced": True, "sig": {"kind": "reader_raises", "exception": type(e).__name__}, "detail": f"reader raised {type(e).__name__}: {e}"}
    if out != inst:
        return {"reproduced": True, "sig": {"kind": "roundtrip_mismatch"}, "detail": f"{d['name']} v{v}: read back {out!r}"[:300]}
    if src.tell() != len(data):
        return {"reproduced": True, "sig": {"kind": "consumption"}, "detail": f"consumed {src.tell()} of {len(data)}"}
    return {"reproduced": False, "detail": "bytes equal the definition's encoding and round trip on the real code"}


# ================================================================================================
# the whole family
# ================================================================================================
def run(tier):
    """-> dict(stats, cex, inconclusive, rows, observed, counts)"""
    from .. import runner

    groups = family(tier)
    by_name = {g["name"]: g for g in groups}
    total = Stats()
    cex = []
    inconclusive = []
    observed = {}
    rows = {}
    counts = {"definitions": sum(len(g["defs"]) for g in groups), "groups": len(groups), "units": 0, "structure_checks": 0, "classes_explored": 0, "shapes": 0,
              "unfinished_schedules": 0, "validated": 0, "refused_outside_subset": [], "generator_runs": 0}
    seen_problem = set()
    tasks = [(g, di, v, tier) for g, di, v in units(groups)]
    results = list(runner.pool_map(task_unit, tasks))
    idx = task_index((groups,))
    counts["generator_runs"] = len(tasks) + 1
    for r in results:
        g = by_name[r["group"]]
        counts["units"] += 1
        row = rows.setdefault(r["group"], {"group": r["group"], "accept": str(g["accept"]), "units": 0, "paths": 0, "queries": 0, "problems": 0, "refused": 0})
        row["units"] += 1
        st = Stats.from_json(r["stats"]) if r["stats"] else Stats()
        row["paths"] += st.paths
        row["queries"] += st.queries
        row["problems"] += len(r["problems"])
        row["refused"] += 1 if r["rejected"] else 0
        if g["accept"] == "observe":
            o = observed.setdefault(r["group"], {"refused": None, "problems": [], "failing_clauses": [], "harness": None})
            if r["rejected"]:
                o["refused"] = r["rejected"][:200]
            for p in r["problems"]:
                if p["detail"][:150] not in o["problems"] and len(o["problems"]) < 4:
                    o["problems"].append(p["detail"][:150])
            for cx in st.cex:
                if cx["clause"] not in o["failing_clauses"]:
                    o["failing_clauses"].append(cx["clause"])
            if r["harness_error"]:
                o["harness"] = r["harness_error"][-200:]
            continue
        if r["harness_error"]:
            inconclusive.append(f"{r['group']} {r['definition']} v{r['version']}: harness error: {r['harness_error'][-300:]}")
        if r["rejected"]:
            if g["accept"] is True:
                key = ("refused", r["group"])
                if key not in seen_problem:
                    seen_problem.add(key)
                    cex.append({"clause": "generator_accepts_constructs_of_the_upstream_release",
                                "witness": {"definitions": g["defs"], "rejected": r["rejected"], "group": r["group"]}, "info": {"error": r["rejected"]}})
            else:
                if r["group"] not in counts["refused_outside_subset"]:
                    counts["refused_outside_subset"].append(r["group"])
            continue
        counts["structure_checks"] += 1
        total.clauses.setdefault("generated_structure_equals_the_definition", [0, 0])
        total.clauses["generated_structure_equals_the_definition"][0] += 1
        if not r["problems"]:
            total.clauses["generated_structure_equals_the_definition"][1] += 1
        for p in r["problems"]:
            key = (r["group"], p["definition"], p["kind"], p["struct"], p["field"])
            if key in seen_problem:
                continue
            seen_problem.add(key)
            cex.append({"clause": "generated_structure_equals_the_definition",
                        "witness": {"definitions": g["defs"], "definition_name": p["definition"], "version": p["version"],
                                    "problem": {"kind": p["kind"], "struct": p["struct"], "field": p["field"]}}, "info": {"detail": p["detail"]}})
        total.merge(st)
        counts["classes_explored"] += r["explored"]
        counts["shapes"] += r["shapes"]
        counts["unfinished_schedules"] += r["unfinished"]
        counts["validated"] += r["validated"]
        if r["validation_mismatch"]:
            inconclusive.append(f"{r['group']} {r['definition']} v{r['version']}: {r['validation_mismatch']} trace validation(s) disagree with the real writer (engine defect)")
    cex.extend(total.cex)
    total.clauses["generated_index_lists_exactly_the_generated_modules"] = [1, 0 if (idx["error"] or idx["problems"]) else 1]
    if idx["error"]:
        inconclusive.append("index run: " + idx["error"][-300:])
    elif idx["problems"]:
        defs = [d for g in groups if g["index"] and g["accept"] is True for d in g["defs"]]
        cex.append({"clause": "generated_index_lists_exactly_the_generated_modules", "witness": {"definitions": defs, "index": True}, "info": {"detail": idx["problems"][0][:300]}})
    counts["index_definitions"] = idx.get("definitions", 0)
    if counts["classes_explored"] == 0:
        inconclusive.append("no generated class was explored (vacuous)")
    return {"stats": total, "cex": cex, "inconclusive": inconclusive, "rows": list(rows.values()), "observed": observed, "counts": counts}
