#!/bin/bash
# Build the overlay venv used by every check (offline; /venv itself is left untouched).
set -e
cd "$(dirname "$0")"
V=/verif/.venv
if [ -x "$V/bin/python" ] && "$V/bin/python" -c "import z3, cvc5, crosshair, kio" 2>/dev/null; then
  exit 0
fi
rm -rf "$V"
/venv/bin/python -m venv "$V"
SP=$("$V/bin/python" -c "import sysconfig; print(sysconfig.get_paths()['purelib'])")
printf "import site; site.addsitedir('/venv/lib/python3.12/site-packages')\n" > "$SP/_venv_overlay.pth"
PIP_NO_INDEX=1 "$V/bin/pip" install -q --no-index --find-links /opt/veriftools/wheels z3-solver cvc5 crosshair-tool >/dev/null
"$V/bin/python" -c "import z3, cvc5, crosshair, kio; print('overlay ok', z3.get_version_string())"
