"""C19 - readers and writers are stateless: history and failures do not matter.

One inductive step from an arbitrary history, on the real cached closures:

* frame: a structural snapshot of everything reachable from the cached reader/writer
  (closure cells, defaults, function attributes) and of the module globals of kio.serial.*
  is taken before a call and compared at EVERY sink.write / source.read callback and after
  return or exception (mid-call observation catches scratch state restored at the end);
* history: call 1 with an arbitrary symbolic instance a - successful, or aborted by an
  injected OSError at the k-th write/read (k symbolic), or by a truncated source - then
  call 2 on the same cached objects with an independent symbolic instance b must give
  exactly the reference bytes for b and decode back to b with exact consumption;
* other classes: creating readers/writers for other classes leaves the snapshot unchanged;
* construction is deterministic: building the closure twice gives equal snapshots.

Thread schedules are not explored (see DESIGN.md): the claim for threads is by reduction
only - no call writes shared state (frame, incl. mid-call) and construction is a
deterministic function of the immutable class."""
from __future__ import annotations

import dataclasses
import os
import sys
import time
import types

import z3

from .. import kref, shapes
from ..core import Stats, Unsupported, Violation, explore
from ..models import ProtocolMonitor, Sink, Src
from ..sym import SymBool, SymBytes, byte_of, sym_var

SERIAL_MODULES = ["kio.serial.readers", "kio.serial.writers", "kio.serial._parse", "kio.serial._serialize", "kio.serial._introspect",
                  "kio.serial._implicit_defaults", "kio.serial._shared", "kio._utils"]


def tier_opts(tier):
    if tier == "quick":
        return dict(regions=shapes.REGIONS_QUICK[:1], max_array=1, max_shapes=6, max_dev=1, per_shape_paths=10, class_paths=200, class_seconds=25, others=6)
    return dict(regions=shapes.REGIONS_QUICK[:2], max_array=2, max_shapes=60, max_dev=2, per_shape_paths=40, class_paths=3000, class_seconds=240, others=25)


# ---- structural snapshot -----------------------------------------------------------------------
ATOMS = (int, str, bytes, bool, type(None), float, complex, frozenset)


def snapshot(obj, seen=None, depth=0):
    seen = seen if seen is not None else {}
    if isinstance(obj, ATOMS):
        return obj
    if id(obj) in seen:
        return ("ref", seen[id(obj)][0])
    if isinstance(obj, (type, types.ModuleType, types.BuiltinFunctionType, types.MethodDescriptorType)):
        return ("atom", getattr(obj, "__qualname__", getattr(obj, "__name__", "?")), id(obj))
    seen[id(obj)] = (len(seen), obj)  # keeps obj alive: ids stay unique during the walk
    if depth > 40:
        return ("deep", type(obj).__name__)
    if isinstance(obj, types.FunctionType):
        cells = []
        for c in obj.__closure__ or ():
            try:
                cells.append(snapshot(c.cell_contents, seen, depth + 1))
            except ValueError:
                cells.append(("empty-cell",))
        return ("fn", obj.__module__, obj.__qualname__, id(obj.__code__), tuple(cells), snapshot(obj.__defaults__, seen, depth + 1),
                snapshot(obj.__kwdefaults__, seen, depth + 1), snapshot(obj.__dict__, seen, depth + 1))
    if isinstance(obj, types.MethodType):
        return ("method", snapshot(obj.__func__, seen, depth + 1), snapshot(obj.__self__, seen, depth + 1))
    if isinstance(obj, dict):
        return ("dict", tuple((snapshot(k, seen, depth + 1), snapshot(v, seen, depth + 1)) for k, v in obj.items()))
    if isinstance(obj, (list, tuple)):
        return (type(obj).__name__, tuple(snapshot(x, seen, depth + 1) for x in obj))
    if isinstance(obj, set):
        return ("set", tuple(sorted((repr(snapshot(x, seen, depth + 1)) for x in obj))))
    if isinstance(obj, dataclasses.Field):
        return ("field", obj.name, id(obj))
    if dataclasses.is_dataclass(obj):
        return ("dc", type(obj).__module__, type(obj).__qualname__, tuple(snapshot(getattr(obj, f.name), seen, depth + 1) for f in dataclasses.fields(obj)))
    import io as _io

    if isinstance(obj, _io.BytesIO):
        # a real scratch buffer held by a closure: its content and position are state
        return ("bytesio", obj.closed or (obj.getvalue(), obj.tell()))
    if isinstance(obj, types.MappingProxyType):
        return ("mappingproxy", tuple((snapshot(k, seen, depth + 1), snapshot(v, seen, depth + 1)) for k, v in obj.items()))
    d = getattr(obj, "__dict__", None)
    if isinstance(d, dict) and type(obj).__module__.startswith(("kio", "kv")):
        return ("obj", type(obj).__qualname__, snapshot(d, seen, depth + 1))
    return ("opaque", type(obj).__qualname__, id(obj))


def module_snapshot():
    out = []
    for name in SERIAL_MODULES:
        mod = sys.modules.get(name)
        if mod is None:
            continue
        items = []
        for k, v in sorted(vars(mod).items()):
            if k.startswith("__") and k.endswith("__"):
                continue
            if isinstance(v, (dict, list, set, types.MappingProxyType)):
                items.append((k, snapshot(v)))
            elif isinstance(v, types.FunctionType):
                items.append((k, "fn", id(v), id(v.__code__), snapshot(v.__dict__), snapshot(v.__defaults__)))
            else:
                items.append((k, "id", id(v)))
        out.append((name, tuple(items)))
    return tuple(out)


class Frame:
    def __init__(self, *objs):
        self.objs = objs
        self.base = self.take()
        self.checks = 0
        self.broken = None

    def take(self):
        return (tuple(snapshot(o) for o in self.objs), module_snapshot())

    def check(self, where):
        self.checks += 1
        if self.broken is None and self.take() != self.base:
            self.broken = where

    def hook(self, where):
        n = [0]

        def cb(_s):
            # every one of the first stream calls, then every 7th (a scratch state that is set up at
            # the start of a call and restored at its end is visible at any callback in between)
            n[0] += 1
            if n[0] <= 3 or n[0] % 7 == 0:
                self.check(where)

        return cb


# ---- harness -------------------------------------------------------------------------------------
CALL1 = ["write_ok", "write_fault", "read_ok", "read_fault", "read_truncated", "none"]


class History:
    def __init__(self, cls, shape, opts, kind="none"):
        from kio.serial import entity_reader, entity_writer

        self.cls = cls
        self.shape = shape
        self.opts = opts
        self.kind = kind
        self.w = entity_writer(cls)
        self.r = entity_reader(cls)

    def build_both(self, b):
        a = b.entity(self.cls, "a")
        bb = b.entity(self.cls, "b")
        return a, bb

    def run(self, c):
        from kio.serial.errors import OutOfBoundValue

        bld = shapes.Builder(c, self.shape, regions=self.opts["regions"], max_array=self.opts["max_array"])
        a, b = self.build_both(bld)
        c.notes["builder"] = bld
        c.notes["ab"] = (a, b)
        frame = Frame(self.w, self.r)
        kind = self.kind
        c.notes["call1"] = kind
        k = None
        # ---- call 1: arbitrary, may fail
        try:
            if kind.startswith("write"):
                if kind == "write_fault":
                    k, _ = sym_var("fault_k", 0, 200)
                s1 = Sink(fail_at=k)
                s1.on_write = frame.hook("during call 1 (write)")
                try:
                    self.w(s1, a)
                    c.notes["call1_result"] = "returned"
                except OSError:
                    c.notes["call1_result"] = "OSError"
                except OutOfBoundValue:
                    c.notes["call1_result"] = "refused"
            elif kind.startswith("read"):
                s0 = Sink()
                try:
                    self.w(s0, a)
                except OutOfBoundValue:
                    raise _Skip()
                if kind == "read_fault":
                    k, _ = sym_var("fault_k", 0, 400)
                src1 = Src(SymBytes(s0.items), fail_at=k, cut=(kind == "read_truncated"))
                c.notes["src1"] = src1
                src1.on_read = frame.hook("during call 1 (read)")
                try:
                    self.r(src1)
                    c.notes["call1_result"] = "returned"
                except OSError:
                    c.notes["call1_result"] = "OSError"
                except Unsupported:
                    raise
                except Exception as e:
                    c.notes["call1_result"] = type(e).__name__
                if kind == "read_fault" and c.notes["call1_result"] == "returned":
                    raise _Skip()  # the fault index lies beyond the last read: same as read_ok
            if kind == "write_fault" and c.notes.get("call1_result") == "returned":
                raise _Skip()
        except _Skip:
            from ..core import PathAbort

            raise PathAbort("call-1 variant not applicable")
        c.notes["fault_k"] = k
        frame.check("after call 1")
        # ---- call 2 on the same cached objects, independent input b
        s2 = Sink()
        s2.on_write = frame.hook("during call 2 (write)")
        try:
            self.w(s2, b)
        except OutOfBoundValue:
            c.outcome = f"{kind}:b_refused"
            return [("no_shared_state_written", frame.broken is None)]
        except Unsupported:
            raise
        except Exception as e:
            raise Violation("call2_encodes_like_a_fresh_writer", {"exception": type(e).__name__, "after": kind})
        ref = kref.encode(b)
        same, why = kref.items_equal(s2.items, ref)
        tail = [byte_of(z3.BitVec("tail0", 8))]
        src2 = Src(SymBytes(list(s2.items) + tail))
        src2.on_read = frame.hook("during call 2 (read)")
        try:
            y = self.r(src2)
        except Unsupported:
            raise
        except Exception as e:
            raise Violation("call2_decodes_like_a_fresh_reader", {"exception": type(e).__name__, "after": kind})
        eq = (y == b)
        if type(eq) is SymBool:
            eq = bool(eq)
        rest, _ = kref.items_equal(src2.remaining().items, tail)
        frame.check("after call 2")
        c.outcome = f"{kind}:{c.notes.get('call1_result', '-')}"
        c.count("frame_checks", frame.checks)
        if frame.broken:
            c.notes["violation_info"] = {"frame_changed": frame.broken, "after": kind}
        return [("no_shared_state_written", frame.broken is None), ("call2_encodes_like_a_fresh_writer", same),
                ("call2_decodes_like_a_fresh_reader", bool(eq)), ("call2_exact_consumption", rest)]

    def witness(self, c, model, clause, info):
        bld = c.notes["builder"]
        m = shapes.prefer_small(c, bld.leaves, extra=c.notes.get("neg_clause")) or model
        a, b = c.notes["ab"]
        k = c.notes.get("fault_k")
        return {"class": shapes.class_id(self.cls), "a": shapes.to_jsonable(shapes.concretise(a, m)), "b": shapes.to_jsonable(shapes.concretise(b, m)),
                "call1": c.notes["call1"], "fault_k": (shapes.concretise(k, m) if k is not None else None),
                "cut": (shapes.concretise(c.notes["src1"].cut_at, m) if c.notes.get("src1") is not None and c.notes["src1"].cut_at is not None else None), "info": info}


class _Skip(Exception):
    pass


def finite_checks(cls, opts, others):
    """construction determinism and non-interference of other classes (concrete, finite)"""
    from kio.serial import entity_reader, entity_writer

    out = {}
    r, w = entity_reader(cls), entity_writer(cls)
    base = (snapshot(r), snapshot(w))
    r2 = entity_reader.__wrapped__(cls) if hasattr(entity_reader, "__wrapped__") else None
    w2 = entity_writer.__wrapped__(cls) if hasattr(entity_writer, "__wrapped__") else None
    if r2 is not None:
        def norm(s):
            # identities differ between two constructions (functions, and opaque immutable helpers such as a
            # struct.Struct a closure may legitimately hold): compare the structure only
            return repr(_portable(s))
        out["construction_deterministic"] = norm(snapshot(r2)) == norm(snapshot(r)) and norm(snapshot(w2)) == norm(snapshot(w))
    out["cached_object_is_reused"] = entity_reader(cls) is r and entity_writer(cls) is w
    return out


def order_digests(order):
    """Run in a clean interpreter (no models): create readers/writers for every class in the given
    order and return, per class, a digest of observable behaviour: the bytes of two canonical
    instances, the decoded value of those bytes, and the structure of the reader/writer closures."""
    import hashlib
    import io

    from kio.serial import entity_reader, entity_writer

    from .. import kref

    classes = shapes.all_entity_classes()
    classes = list(reversed(classes)) if order == "rev" else classes
    out = {}
    for cls in classes:
        r, w = entity_reader(cls), entity_writer(cls)
        parts = []
        inst1 = shapes.Builder(None, {}).entity(cls)
        try:
            inst2 = cls(**{f.name: (kref.implicit_default(cls, f) if "tag" in f.metadata else getattr(inst1, f.name)) for f in dataclasses.fields(cls)})
        except Exception as e:
            inst2 = inst1
        for inst in (inst1, inst2):
            buf = io.BytesIO()
            try:
                w(buf, inst)
                data = buf.getvalue()
                back = r(io.BytesIO(data))
                parts.append(data.hex() + "|" + repr(back == inst))
            except Exception as e:
                parts.append("EXC:" + type(e).__name__)
        parts.append(repr(_portable(snapshot(r))))
        parts.append(repr(_portable(snapshot(w))))
        out[shapes.class_id(cls)] = hashlib.sha256("\n".join(parts).encode()).hexdigest()[:20] + ":" + parts[0][:60] + ":" + parts[1][:60]
    return out


def order_dependence():
    """-> list of class ids whose behaviour differs between creation orders (two clean subprocesses)"""
    import json
    import subprocess

    procs = [subprocess.Popen([sys.executable, "-m", "kv.props.c19", "--order", o], cwd=os.path.dirname(os.path.dirname(os.path.dirname(os.path.abspath(__file__)))),
                              stdout=subprocess.PIPE, stderr=subprocess.PIPE, text=True) for o in ("fwd", "rev")]
    outs = []
    for p in procs:
        so, se = p.communicate(timeout=900)
        if p.returncode != 0:
            raise RuntimeError("order-dependence subprocess failed: " + se[-800:])
        outs.append(json.loads(so))
    fwd, rev = outs
    return sorted(k for k in fwd if fwd[k] != rev.get(k)), len(fwd), {k: (fwd[k], rev.get(k)) for k in list(fwd) if fwd[k] != rev.get(k)}


def _portable(s):
    """a snapshot with every process-specific identity removed (comparable across interpreters)"""
    if isinstance(s, tuple):
        if s and s[0] == "fn":
            return ("fn", s[1], s[2], tuple(_portable(x) for x in s[4]), _portable(s[5]), _portable(s[6]), _portable(s[7]))
        if s and s[0] in ("atom", "field", "opaque") and len(s) == 3:
            return (s[0], s[1])
        if s and s[0] == "ref":
            return ("ref",)
        return tuple(_portable(x) for x in s)
    return s


def _strip_ids(s):
    if isinstance(s, tuple):
        if s and s[0] in ("fn",):
            return ("fn", s[1], s[2], tuple(_strip_ids(x) for x in s[4]), _strip_ids(s[5]), _strip_ids(s[6]), _strip_ids(s[7]))
        if s and s[0] == "ref":
            return ("ref",)
        return tuple(_strip_ids(x) for x in s)
    return s


def task_class(args):
    cid, opts = args
    t0 = time.time()
    if opts.get("deadline") and t0 > opts["deadline"]:
        return {"class": cid, "stats": Stats().to_json(), "shapes": 0, "kinds_ok": 0, "kinds_bad": [], "finite": {}, "wall": 0, "skipped": True}
    cls = shapes.class_by_id(cid)
    stats = Stats()
    deadline = t0 + opts["class_seconds"]
    reps = shapes.signature_representatives(shapes.all_entity_classes())
    fin = finite_checks(cls, opts, [])  # before the closures are used: both constructions are fresh
    probe = History(cls, {}, opts)
    nshapes = 0
    for shape, depth in shapes.shape_schedule(probe.build_both, opts["max_shapes"], opts["max_dev"], regions=opts["regions"], max_array=opts["max_array"]):
        if stats.paths >= opts["class_paths"] or time.time() > deadline:
            break
        for kind in CALL1:
            explore(History(cls, shape, opts, kind), max_paths=opts["per_shape_paths"], stats=stats, deadline=deadline, range_bound=opts["max_array"] + 1)
        nshapes += 1
    return {"class": cid, "stats": stats.to_json(), "shapes": nshapes, "finite": fin, "wall": round(time.time() - t0, 2)}


def check(tier):
    import random

    from .. import install, runner

    t0 = time.time()
    rep = install.install()
    opts = tier_opts(tier)
    if tier == "thorough":
        opts["deadline"] = t0 + 25 * 60
    classes = shapes.all_entity_classes()
    reps = shapes.signature_representatives(classes)
    targets = list(reps if tier == "quick" else classes)
    random.Random(runner.seed()).shuffle(targets)
    if tier == "quick":
        targets = targets[:260]
    if os.environ.get("VERIF_LIMIT"):
        targets = targets[: int(os.environ["VERIF_LIMIT"])]
    total = Stats()
    finite_bad = []
    finite_n = 0
    samples = []
    for r in runner.pool_map(task_class, [(shapes.class_id(c), opts) for c in targets], progress=100):
        st = Stats.from_json(r["stats"])
        total.merge(st)
        for k, ok in r["finite"].items():
            finite_n += 1
            if not ok:
                finite_bad.append((r["class"], k))
        if len(samples) < 4:
            samples.append({"class": r["class"], "paths": st.paths, "shapes": r["shapes"], "outcomes": st.outcomes})
    cex = list(total.cex)
    for cid, k in finite_bad[:10]:
        cex.append({"clause": k, "witness": {"class": cid, "finite": k}, "info": {}})
    try:
        differing, n_order, detail = order_dependence()
    except Exception as e:
        differing, n_order, detail = [], 0, {}
        inconclusive_order = str(e)[:300]
    else:
        inconclusive_order = None
    total.clauses["results_independent_of_creation_order"] = [n_order, n_order - len(differing)]
    for cid in differing[:5]:
        cex.append({"clause": "results_independent_of_creation_order", "witness": {"class": cid, "order": True, "digests": detail.get(cid)}, "info": {}})
    inconclusive = []
    if inconclusive_order:
        inconclusive.append("order-dependence probe failed to run: " + inconclusive_order)
    if total.unsupported:
        inconclusive.append(f"{total.unsupported} path(s) could not be followed by the engine: {list(total.unsupported_msgs.items())[:5]}")
    if total.paths == 0:
        inconclusive.append("no path completed (vacuous)")
    cov = runner.mc_coverage(
        total, functions=["kio.serial._parse.entity_reader + the cached closure it returns", "kio.serial._serialize.entity_writer + the cached closure it returns",
                          "kio._utils.cache (functools.cache)", "kio.serial.writers.write_tagged_field (private buffers)", "module globals of kio.serial.*"],
        bounds={"history": "one arbitrary earlier call (successful, OSError at the k-th write/read with k symbolic, truncated source) followed by one call; inductive step for histories of any length given the frame clause",
                "instances": "two independent symbolic instances per path; shapes base + deviations to depth %d" % opts["max_dev"], "classes": len(targets), "of": len(classes),
                "fault_index": "every write / read index of the call (one fork per stream call)", "creation_orders": "all classes in forward and in reverse order, each in a clean interpreter; behaviour digests compared for all %d classes" % n_order,
                "thread_schedules": "NOT explored - by reduction only (no shared state written, deterministic construction)"},
        outside=["thread interleavings (no installed engine executes Python threads symbolically; claimed by the non-interference argument only)",
                 "state hidden inside C extension objects (functools.cache internals are trusted)", "faults other than an exception raised by the stream call"],
        rule="one state = one completed symbolic two-call history on the cached reader/writer of one class",
        extra={"finite_checks": finite_n, "finite_failures": finite_bad[:10], "classes_checked": len(targets), "order_dependence_classes_compared": n_order,
               "order_dependent_classes": differing[:10],
               "rebinding_report": {k: v for k, v in rep.items() if k != "__keep__" and v}, "source_hashes": install.source_hashes()})
    return runner.finish("C19", tier, t0, level="model_checking", coverage=cov, assumptions=["A1", "A3", "A7", "A8"], cex=cex,
                         inconclusive=inconclusive, samples=samples)


if __name__ == "__main__":
    import json

    if len(sys.argv) == 3 and sys.argv[1] == "--order":
        print(json.dumps(order_digests(sys.argv[2])))
