#!/bin/bash
# tools/validate_seed.sh <name> <dir with patch.diff demo.py> : confirm in a fresh scratch worktree that
# (1) the demo passes without the change, (2) fails with it, (3) the existing suite passes with it.
NAME=$1; SRC=$2
WT=/tmp/val_$NAME
git -C /repo worktree remove --force $WT >/dev/null 2>&1
git -C /repo worktree add -q $WT HEAD || exit 9
cp /repo/src/kio/_version.py $WT/src/kio/_version.py
mkdir -p $WT/MUTATION; cp $SRC/demo.py $WT/MUTATION/
cd $WT
PYTHONPATH=$WT/src:$WT timeout 600 /venv/bin/python MUTATION/demo.py >/tmp/val_$NAME.clean.log 2>&1; clean=$?
git apply $SRC/patch.diff || { echo "$NAME: patch does not apply"; git -C /repo worktree remove --force $WT; exit 9; }
PYTHONPATH=$WT/src:$WT timeout 600 /venv/bin/python MUTATION/demo.py >/tmp/val_$NAME.mut.log 2>&1; mut=$?
suite=$(PYTHONPATH=$WT/src /venv/bin/python -m pytest -q -p no:cacheprovider --timeout=300 -m "not java" --deselect tests/test_integration.py 2>&1 | tail -1)
echo "$NAME: demo_without_change_exit=$clean demo_with_change_exit=$mut suite_with_change: $suite"
cd /; git -C /repo worktree remove --force $WT
