#!/bin/bash
# behaviour-preserving refactors of kio (selftest/refactors/*.diff): every check must stay at exit 0
cd /verif
for r in selftest/refactors/*.diff; do
  n=$(basename $r .diff); mkdir -p /tmp/rf/$n; cp $r /tmp/rf/$n/patch.diff
  echo "#### $n"; VERIF_LIMIT=${VERIF_LIMIT:-60} tools/try_seed_copy.sh /tmp/rf/$n ${@:-C11 C12 C05 C01 C02 C06 C10 C19 C07} 2>&1 | cut -c1-200
done
