"""C12 - primitive value types denote exactly their wire domains.

The real Phantom machinery (PhantomMeta.__instancecheck__/__call__, Phantom.parse, the
interval/float/duration/timestamp predicates of kio.static.primitive) runs on symbolic
values; membership is compared with a range table pinned HERE (Kafka widths; the 35/70-bit
varint ranges as kio documents them)."""
from __future__ import annotations

RANGES = {
    "i8": (-(2**7), 2**7 - 1), "i16": (-(2**15), 2**15 - 1), "i32": (-(2**31), 2**31 - 1), "i64": (-(2**63), 2**63 - 1),
    "u8": (0, 2**8 - 1), "u16": (0, 2**16 - 1), "u32": (0, 2**32 - 1), "u64": (0, 2**64 - 1),
    "uvarint": (0, 2**35 - 1), "uvarlong": (0, 2**70 - 1), "svarint": (-(2**34), 2**34 - 1), "svarlong": (-(2**69), 2**69 - 1),
}
WRITER = {"i8": "int8", "i16": "int16", "i32": "int32", "i64": "int64", "u8": "uint8", "u16": "uint16", "u32": "uint32", "u64": "uint64"}
CHAINS = [("i8", "i16"), ("i16", "i32"), ("i32", "i64"), ("u8", "u16"), ("u16", "u32"), ("u32", "u64")]

US = 10**6
TD_MIN_US = -999999999 * 86400 * US
TD_MAX_US = (999999999 * 86400 + 86399) * US + 999999
I32_MIN_US, I32_MAX_US = -(2**31) * 1000, (2**31 - 1) * 1000
I64_MIN_US, I64_MAX_US = TD_MIN_US, TD_MAX_US - 86400 * US
DT_MAX_S = 253402300799


def _P():
    from kio.static import primitive

    return primitive


def mk_int_type(name):
    lo, hi = RANGES[name]

    def lemma(I):
        P = _P()
        T = getattr(P, name)
        v = I.int("v", -(2**100), 2**100)
        member = I.isinstance(v, T)
        in_range = I.all([v >= lo, v <= hi])
        I.check("member_iff_in_pinned_range", I.iff(member, in_range))
        try:
            r = T(v)
        except TypeError:
            I.check("constructor_rejects_exactly_non_members", I.not_(in_range))
        else:
            I.check("constructor_rejects_exactly_non_members", in_range)
            I.check("constructor_returns_value_unchanged", r is v)
        try:
            r = T.parse(v)
        except TypeError:
            I.check("parse_rejects_exactly_non_members", I.not_(in_range))
        else:
            I.check("parse_rejects_exactly_non_members", in_range)
        if name in WRITER:
            from kio.serial import readers, writers

            s = I.sink()
            try:
                getattr(writers, "write_" + WRITER[name])(s, v)
            except Exception:
                I.check("writer_accepts_exactly_members", I.not_(in_range))
            else:
                I.check("writer_accepts_exactly_members", in_range)
                back = getattr(readers, "read_" + WRITER[name])(I.src(I.written(s)))
                I.check("member_reads_back_equal", back == v)

    return lemma


def lemma_chains(I):
    P = _P()
    v = I.int("v", -(2**100), 2**100)
    for a, b in CHAINS:
        ma = I.isinstance(v, getattr(P, a))
        mb = I.isinstance(v, getattr(P, b))
        I.check(f"{a}_subset_of_{b}", I.implies(ma, mb))


def lemma_other_python_types(I):
    """non-matching Python types are rejected (concrete cases; bool is an int in range and is
    therefore not asserted to be rejected)."""
    import datetime

    P = _P()
    bad_for_int = [1.0, "1", None, b"1", 1.5, (1,), datetime.timedelta(0)]
    for name in RANGES:
        T = getattr(P, name)
        for x in bad_for_int:
            I.check("non_int_is_not_member", not isinstance(x, T))
            try:
                T(x)
            except TypeError:
                ok = True
            else:
                ok = False
            I.check("non_int_rejected_with_TypeError", ok)
    # numerically equal values of different Python types, queried one after the other in both orders
    # (a membership answer must not depend on an earlier query for an equal value of another type)
    import decimal
    import fractions

    for name, (lo, hi) in RANGES.items():
        T = getattr(P, name)
        for v in (1, 100 if hi >= 100 else hi, hi):
            I.check("int_member_after_nothing", isinstance(v, T))
            for other in (float(v), decimal.Decimal(v), fractions.Fraction(v)):
                if other == v:
                    I.check("equal_valued_non_int_is_not_member_after_the_int_was_accepted", not isinstance(other, T))
                    try:
                        T(other)
                        ok = False
                    except TypeError:
                        ok = True
                    I.check("equal_valued_non_int_rejected_with_TypeError", ok)
        w = 77 if hi >= 77 else 3
        I.check("float_first_is_not_member", not isinstance(float(w), T))
        I.check("int_is_member_after_an_equal_float_was_rejected", isinstance(w, T) and T(w) is w)
    I.check("int_is_not_f64", not isinstance(3, P.f64))
    I.check("float_is_f64_after_an_equal_int_was_rejected", isinstance(3.0, P.f64))
    I.check("int_is_not_f64_after_the_float_was_accepted", not isinstance(3, P.f64))
    for x in (1, "1.0", None, True):
        I.check("non_float_is_not_f64", not isinstance(x, P.f64))
    for T in (P.i32Timedelta, P.i64Timedelta):
        for x in (1, 1.0, None, "x", datetime.datetime(2020, 1, 1, tzinfo=datetime.UTC)):
            I.check("non_timedelta_is_not_duration", not isinstance(x, T))
    for T in (P.TZAware, P.TZAwareMicros):
        for x in (1, 1.0, None, "x", datetime.timedelta(0), datetime.date(2020, 1, 1), datetime.datetime(2024, 1, 1)):
            I.check("naive_or_non_datetime_is_not_timestamp", not isinstance(x, T))
            try:
                T(x)
            except TypeError:
                ok = True
            else:
                ok = False
            I.check("rejected_with_TypeError", ok)


def lemma_f64(I):
    P = _P()
    from kio.serial import readers, writers

    f = I.f64("f")
    member = I.isinstance(f, P.f64)
    finite = I.finite(f)
    I.check("member_iff_finite", I.iff(member, finite))
    try:
        r = P.f64(f)
    except TypeError:
        I.check("constructor_rejects_exactly_non_finite", I.not_(finite))
    else:
        I.check("constructor_rejects_exactly_non_finite", finite)
        I.check("constructor_returns_value_unchanged", r is f)
        s = I.sink()
        writers.write_float64(s, f)
        back = readers.read_float64(I.src(I.written(s)))
        I.check("member_reads_back_equal", back == f)


def mk_duration(bits):
    lo, hi = (I32_MIN_US, I32_MAX_US) if bits == 32 else (I64_MIN_US, I64_MAX_US)

    def lemma(I):
        P = _P()
        from kio.serial import readers, writers

        T = P.i32Timedelta if bits == 32 else P.i64Timedelta
        us = I.int("us", TD_MIN_US, TD_MAX_US)
        td = I.timedelta_us(us)
        member = I.isinstance(td, T)
        in_range = I.all([us >= lo, us <= hi])
        I.check("member_iff_in_documented_range", I.iff(member, in_range))
        try:
            r = T(td)
        except TypeError:
            I.check("constructor_rejects_exactly_non_members", I.not_(in_range))
            return
        I.check("constructor_rejects_exactly_non_members", in_range)
        I.check("constructor_returns_value_unchanged", r is td)
        s = I.sink()
        getattr(writers, f"write_timedelta_i{bits}")(s, td)
        out = I.written(s)
        ms = I.unpacked(out[0] if I.symbolic else out)
        I.check("written_value_within_half_millisecond", I.all([ms * 1000 - us <= 500, us - ms * 1000 <= 500]))
        fmt = ">i" if bits == 32 else ">q"
        back = getattr(readers, f"read_timedelta_i{bits}")(I.src([out[0]]) if I.symbolic else I.src(out))
        I.check("reads_back_rounded_value", back == I.timedelta_us(ms * 1000))

    return lemma


def mk_timestamp(kind):
    def lemma(I):
        P = _P()
        from kio.serial import readers, writers

        T = P.TZAware if kind == "ms" else P.TZAwareMicros
        secs = I.int("secs", -62135596800 + 86400, DT_MAX_S - 86400)
        micro = I.int("micro", 0, 999999)
        off_min = I.int("off_min", -1439, 1439)
        dt = I.datetime_utc(secs, micro, off_min * 60)
        member = I.isinstance(dt, T)
        if kind == "ms":
            spec = I.all([secs >= 0, (micro % 1000) == 0])
        else:
            spec = secs >= 0
        I.check("member_iff_aware_nonnegative_and_precision", I.iff(member, spec))
        try:
            r = T(dt)
        except TypeError:
            I.check("constructor_rejects_exactly_non_members", I.not_(spec))
            return
        I.check("constructor_rejects_exactly_non_members", spec)
        I.check("constructor_returns_value_unchanged", r is dt)
        if kind == "ms":
            s = I.sink()
            writers.write_datetime_i64(s, dt)
            out = I.written(s)
            back = readers.read_datetime_i64(I.src([out[0]]) if I.symbolic else I.src(out))
            I.check("member_reads_back_equal", back == dt)
            t = I.truncate(P.TZAware, dt)
            I.check("truncate_is_identity_on_members", t == dt)

    return lemma


def lemma_truncate(I):
    """TZAware.truncate maps any aware non-negative datetime to the member at or just below it"""
    P = _P()
    secs = I.int("secs", 0, DT_MAX_S)
    micro = I.int("micro", 0, 999999)
    dt = I.datetime_utc(secs, micro, 0)
    t = I.truncate(P.TZAware, dt)
    I.check("truncate_yields_member", I.isinstance(t, P.TZAware))
    I.check("truncate_floors_to_millisecond", t == I.datetime_utc(secs, micro - micro % 1000, 0))


LEMMAS = [(f"int_{n}", mk_int_type(n)) for n in RANGES]
LEMMAS += [
    ("int_subset_chains", lemma_chains),
    ("other_python_types", lemma_other_python_types),
    ("f64", lemma_f64),
    ("i32Timedelta", (mk_duration(32), {"rmode": True})),
    ("i64Timedelta", (mk_duration(64), {"rmode": True})),
    ("TZAware", (mk_timestamp("ms"), {"rmode": True})),
    ("TZAwareMicros", (mk_timestamp("us"), {"rmode": True})),
    ("TZAware_truncate", (lemma_truncate, {"rmode": True})),
]


def check(tier):
    from ..lemma import check_lemmas

    return check_lemmas(
        "C12", "kv.props.c12", tier,
        functions=["kio.static._phantom.PhantomMeta.__instancecheck__/__call__", "kio.static._phantom.Phantom.__instancecheck__/parse",
                   "kio.static.primitive.inclusive_interval.check / Interval subclasses i8..svarlong", "kio.static.primitive.f64 (math.isfinite)",
                   "kio.static.primitive.is_i32_timedelta / is_i64_timedelta", "kio.static.primitive.is_tz_aware / is_tz_aware_with_millisecond_precision / TZAware.truncate",
                   "kio.serial.writers.write_int*/write_uint*/write_float64/write_timedelta_i32/i64/write_datetime_i64 and matching readers"],
        bounds={"integers": "v in [-2^100, 2^100]", "floats": "every 64-bit pattern (finite, inf, nan, -0.0)", "durations": "every microsecond count a timedelta can hold",
                "timestamps": "UTC instant from year 0001+1d to 9999-1d at microsecond resolution, fixed offset of -1439..1439 minutes, aware; naive and non-datetime values as concrete cases"},
        outside=["tzinfo other than fixed offsets (arbitrary pure-Python tzinfo)", "|v| > 2^100", "instants within one day of datetime.min/max combined with offsets"],
        assumptions=["A1", "A4", "A5", "A8"])
