"""C10 - malformed input fails fast with a decode error.

(a) arbitrary buffer: N fresh symbolic bytes into the real entity_reader(T);
(b) one-byte corruption of a valid encoding: symbolic position and replacement value;
(c) progress: a class used as an array item never decodes from zero bytes, so `range(n)`
    for n larger than the input is cut short by underflow (no unrolling needed).
Allowed outcomes: an entity (which must encode again), a kio SerialError, ValueError
(incl. UnicodeDecodeError) or OverflowError."""
from __future__ import annotations

import dataclasses
import os
import time

import z3

from .. import kref, shapes
from ..core import Stats, Unsupported, Violation, explore
from ..models import Sink, Src
from ..sym import SymBytes, SymInt, W, byte_of, sym_var


def tier_opts(tier):
    if tier == "quick":
        return dict(N=5, class_paths=1000, class_seconds=40, corrupt_paths=150, regions=shapes.REGIONS_QUICK)
    return dict(N=7, class_paths=12000, class_seconds=90, corrupt_paths=2500, regions=shapes.REGIONS_QUICK, wall_budget=27 * 60)


def all_tags(cls, seen=None):
    seen = seen if seen is not None else set()
    if cls in seen:
        return set()
    seen.add(cls)
    out = set()
    for f in dataclasses.fields(cls):
        if "tag" in f.metadata:
            out.add(int(f.metadata["tag"]))
        _, _, inner, _ = kref.split_annotation(kref.field_type(cls, f))
        if dataclasses.is_dataclass(inner):
            out |= all_tags(inner, seen)
    return out


def hints_for(cls):
    base = all_tags(cls) | {0, 1, 2, 3}
    return sorted({t + d for t in base for d in (-1, 0, 1) if t + d >= 0})


_array_items = None


def array_item_classes():
    global _array_items
    if _array_items is None:
        s = set()
        for c in shapes.all_entity_classes():
            for f in dataclasses.fields(c):
                is_array, _, inner, _ = kref.split_annotation(kref.field_type(c, f))
                if is_array and dataclasses.is_dataclass(inner):
                    s.add(inner)
        _array_items = s
    return _array_items


class Base:
    def __init__(self, cls, opts):
        from kio.serial import entity_reader, entity_writer
        from kio.serial.errors import SerialError

        self.cls = cls
        self.opts = opts
        self.r = entity_reader(cls)
        self.w = entity_writer(cls)
        self.allowed = (SerialError, ValueError, OverflowError)
        self.is_item = cls in array_item_classes()

    def decode(self, c, src, n_given):
        try:
            y = self.r(src)
        except self.allowed as e:
            c.outcome = type(e).__name__
            return [("outcome_is_entity_or_decode_error", True)]
        except Unsupported:
            raise
        except RecursionError:
            raise Violation("outcome_is_entity_or_decode_error", {"exception": "RecursionError"})
        except Exception as e:
            c.outcome = "BAD:" + type(e).__name__
            raise Violation("outcome_is_entity_or_decode_error", {"exception": type(e).__name__, "msg": str(e)[:200]})
        c.outcome = "entity"
        if c.notes.get("range_over_bound"):
            if n_given is not None:
                # an array longer than the input was decoded completely: iterations are not bounded by the input size
                raise Violation("work_bounded_by_input_size", {"loop": "array length beyond input decoded without underflow"})
            c.count("paths_with_array_longer_than_unrolling_bound")
        obl = [("never_consumes_more_than_it_was_given", src.past_end == 0)]
        if self.is_item:
            cons = src.consumed
            obl.append(("array_item_consumes_at_least_one_byte", cons >= 1))
        sink = Sink()
        try:
            self.w(sink, y)
        except Unsupported:
            raise
        except Exception as e:
            c.outcome = "entity_not_encodable"
            raise Violation("returned_entity_encodes_again", {"exception": type(e).__name__, "msg": str(e)[:200]})
        obl.append(("returned_entity_encodes_again", True))
        return obl


class Arbitrary(Base):
    def run(self, c):
        N = self.opts["N"]
        bs = [byte_of(z3.BitVec(f"b{i}", 8)) for i in range(N)]
        c.notes["bytes"] = bs
        src = Src(SymBytes(bs))
        return self.decode(c, src, N)

    def witness(self, c, model, clause, info):
        bs = [shapes.concretise(b, model) if type(b) is SymInt else b for b in c.notes["bytes"]]
        return {"class": shapes.class_id(self.cls), "bytes": bs, "kind": "arbitrary"}


class Corrupt(Base):
    """valid encoding of a symbolic base-shape instance with one byte overwritten (symbolic position
    and value), or one symbolic byte inserted / one byte deleted at a chosen position"""

    def __init__(self, cls, opts, shape, edit="overwrite"):
        super().__init__(cls, opts)
        self.shape = shape
        self.edit = edit

    def run(self, c):
        b = shapes.Builder(c, self.shape, regions=self.opts["regions"], max_array=1)
        x = b.entity(self.cls)
        c.notes["builder"] = b
        c.notes["instance"] = x
        sink = Sink()
        from kio.serial.errors import OutOfBoundValue

        try:
            self.w(sink, x)
        except OutOfBoundValue:
            return []
        items = list(sink.items)
        idx = [i for i, it in enumerate(items) if not type(it).__name__ == "Blob"]
        if not idx:
            return []
        if self.edit != "overwrite":
            # insertion / deletion: the position is a harness choice among the first and last byte positions
            cand = idx[:16] + [i for i in idx[-8:] if i not in idx[:16]]
            k = c.choose(len(cand), "edit_pos")
            at = cand[k]
            if self.edit == "insert":
                nv = z3.BitVec("corrupt_val", 8)
                new = items[:at] + [byte_of(nv)] + items[at:]
            else:
                nv = None
                new = items[:at] + items[at + 1:]
            c.notes["corrupt"] = (at, nv, idx)
            c.notes["orig_items"] = items
            return self.decode(c, Src(SymBytes(new)), None)
        p, _ = sym_var("corrupt_pos", 0, len(idx) - 1)
        nv = z3.BitVec("corrupt_val", 8)
        diff = []
        new = list(items)
        from ..sym import byte_term

        for k, i in enumerate(idx):
            orig = byte_term(items[i])
            hit = p.e == k
            new[i] = byte_of(z3.If(hit, nv, orig))
            diff.append(z3.And(hit, nv != orig))
        c.add(z3.Or(*diff))
        c.notes["corrupt"] = (p, nv, idx)
        c.notes["orig_items"] = items
        src = Src(SymBytes(new))
        return self.decode(c, src, None)

    def witness(self, c, model, clause, info):
        p, nv, idx = c.notes["corrupt"]
        inst = shapes.concretise(c.notes["instance"], model)
        if self.edit != "overwrite":
            items = c.notes["orig_items"]
            off = 0
            for it in items[:p]:
                off += (shapes.concretise(it.length, model) if type(it.length) is SymInt else it.length) if type(it).__name__ == "Blob" else 1
            return {"class": shapes.class_id(self.cls), "kind": self.edit, "instance": shapes.to_jsonable(inst), "offset": off,
                    "value": (model.eval(nv, model_completion=True).as_long() if nv is not None else None)}
        k = model.eval(p.e, model_completion=True).as_long()
        # byte offset of the corrupted item in the concrete encoding
        items = c.notes["orig_items"]
        off = 0
        for it in items[: idx[k]]:
            if type(it).__name__ == "Blob":
                off += shapes.concretise(it.length, model) if type(it.length) is SymInt else it.length
            else:
                off += 1
        return {"class": shapes.class_id(self.cls), "kind": "corrupt", "instance": shapes.to_jsonable(inst), "offset": off,
                "value": model.eval(nv, model_completion=True).as_long()}


def task_class(args):
    cid, opts, mode = args
    t0 = time.time()
    if opts.get("deadline") and t0 > opts["deadline"]:
        return {"class": cid, "mode": mode, "stats": Stats().to_json(), "wall": 0, "skipped": True}
    cls = shapes.class_by_id(cid)
    stats = Stats()
    deadline = t0 + opts["class_seconds"]
    hints = hints_for(cls)
    if mode == "arbitrary":
        explore(Arbitrary(cls, opts), max_paths=opts["class_paths"], stats=stats, deadline=deadline, hints=hints, range_bound=opts["N"])
    else:
        explore(Corrupt(cls, opts, {}), max_paths=opts["corrupt_paths"], stats=stats, deadline=deadline, hints=hints, range_bound=3)
        for edit in ("insert", "delete"):
            explore(Corrupt(cls, opts, {}, edit), max_paths=max(40, opts["corrupt_paths"] // 4), stats=stats, deadline=deadline, hints=hints, range_bound=3)
    if stats.unsupported and os.environ.get("VERIF_DEBUG"):
        print("UNSUPPORTED", cid, mode, stats.unsupported_msgs, flush=True)
    return {"class": cid, "mode": mode, "stats": stats.to_json(), "wall": round(time.time() - t0, 2)}


def check(tier):
    import random

    from .. import install, runner

    t0 = time.time()
    rep = install.install()
    opts = tier_opts(tier)
    if opts.get("wall_budget"):
        opts["deadline"] = t0 + opts["wall_budget"]
    classes = shapes.all_entity_classes()
    reps = shapes.signature_representatives(classes)
    targets = reps if tier == "quick" else classes
    if os.environ.get("VERIF_LIMIT"):
        targets = targets[: int(os.environ["VERIF_LIMIT"])]
    array_item_classes()  # computed once, before the workers fork
    rnd = random.Random(runner.seed())
    targets = list(targets)
    rnd.shuffle(targets)
    tasks = [(shapes.class_id(c), opts, "arbitrary") for c in targets]
    def rare_plan(c):
        # classes whose decoding plan has a nullable-struct marker or a tagged section get the corruption run in every tier
        for f in dataclasses.fields(c):
            is_array, nullable, inner, _ = kref.split_annotation(kref.field_type(c, f))
            if (nullable and not is_array and dataclasses.is_dataclass(inner)) or "tag" in f.metadata:
                return True
        return False

    corrupt_targets = targets if tier == "thorough" else [c for k, c in enumerate(targets) if k % 3 == 0 or rare_plan(c)]
    tasks += [(shapes.class_id(c), opts, "corrupt") for c in corrupt_targets]
    total = Stats()
    capped = []
    skipped = []
    by_mode = {"arbitrary": 0, "corrupt": 0}
    samples = []
    for r in runner.pool_map(task_class, tasks, progress=300):
        st = Stats.from_json(r["stats"])
        total.merge(st)
        if r.get("skipped"):
            skipped.append((r["class"], r["mode"]))
            continue
        by_mode[r["mode"]] += st.paths
        if st.capped:
            capped.append((r["class"], r["mode"], st.remaining))
        if len(samples) < 4:
            samples.append({"class": r["class"], "mode": r["mode"], "paths": st.paths, "outcomes": st.outcomes})
    inconclusive = []
    if total.unsupported:
        inconclusive.append(f"{total.unsupported} path(s) could not be followed by the engine: {list(total.unsupported_msgs.items())[:5]}")
    if total.paths == 0:
        inconclusive.append("no path completed (vacuous)")
    cov = runner.mc_coverage(
        total, functions=["kio.serial._parse.entity_reader (read_entity, read_nullable_entity, tagged-field loop)", "kio.serial.readers.* (all)",
                          "kio.serial._serialize.entity_writer (re-encoding of whatever was returned)", "kio.static.primitive predicates reached on the way"],
        bounds={"arbitrary_buffer_bytes": opts["N"], "classes": len(targets), "class_selection": "one per plan signature" if tier == "quick" else "all",
                "corruption": "of the encoding of a symbolic base-shape instance: one overwritten byte (symbolic position among the non-payload bytes, symbolic value); one inserted symbolic byte or one deleted byte at each of the first 16 and last 8 non-payload positions",
                "corruption_classes": len(corrupt_targets), "paths_per_class_cap": opts["class_paths"], "loop_unrolling": "arrays up to N items individually, longer ones by the progress clause"},
        outside=["buffers longer than N bytes other than corrupted valid encodings", "more than one corrupted/inserted/deleted byte",
                 "wall-clock time (work is bounded through the loop/progress clauses instead)", "MemoryError from allocating a huge payload is not modelled (reads return at most what the source holds)"],
        rule="one state = one completed symbolic path of the real reader over the symbolic buffer; distinct by construction",
        extra={"paths_by_mode": by_mode, "tasks_not_reached_within_wall_budget": len(skipped), "tasks_not_reached_sample": skipped[:20], "classes_with_path_cap_hit": len(capped), "cap_hits": capped[:40],
               "rebinding_report": {k: v for k, v in rep.items() if k != "__keep__" and v}, "source_hashes": install.source_hashes()})
    return runner.finish("C10", tier, t0, level="model_checking", coverage=cov, assumptions=["A1", "A2", "A3", "A5q", "A7", "A8"],
                         cex=total.cex, inconclusive=inconclusive, samples=samples)
