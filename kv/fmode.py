"""kv.fmode - exact floating-point family used ONLY to search for witnesses.

Integers are bit-vectors (96 bits), Python floats are z3 Float64 terms with the IEEE
operations kio's code performs (int/int true division, float*int, round, int, the
fromtimestamp split).  Proofs over these terms do not finish (DESIGN 1.4) but satisfying
assignments are usually found quickly (z3 with a short limit, then the cvc5 binary).  Every
assignment found here is only a *candidate*: it is replayed on the real code before
anything is reported, so the small modelling liberties below cannot cause a false alarm:
  * int/int true division converts the numerator to Float64 first (exact below 2^53; CPython
    rounds the exact quotient once)."""
from __future__ import annotations

import shutil
import subprocess
import tempfile

import z3

from .core import Unsupported, ctx
from .sym import SymBool

WB = 96
F64 = z3.Float64()
F128 = z3.FPSort(15, 113)
RNE = z3.RNE()
RTZ = z3.RTZ()


def _bv(v):
    return z3.BitVecVal(v, WB)


def _lift(o):
    t = type(o)
    if t is FInt:
        return o.e
    if t is bool:
        return _bv(int(o))
    if t is int:
        if o.bit_length() >= WB - 1:
            raise Unsupported("F-mode constant too wide")
        return _bv(o)
    raise TypeError(t.__name__)


def _to_f64(bv):
    return z3.fpSignedToFP(RNE, bv, F64)


class FInt:
    __class__ = property(lambda self: int)  # C-level isinstance() / `match` class patterns see the represented type
    __slots__ = ("e",)

    def __init__(self, e):
        self.e = e

    @staticmethod
    def var(name, lo, hi):
        v = z3.BitVec(name, WB)
        ctx().add(z3.And(v >= lo, v <= hi))
        return FInt(v)

    def _cmp(self, o, f, ff):
        if type(o) is FFloat:
            return SymBool(ff(_to_f64(self.e), o.e))
        if type(o) is float:
            return SymBool(ff(_to_f64(self.e), z3.FPVal(o, F64)))
        try:
            return SymBool(f(self.e, _lift(o)))
        except TypeError:
            return NotImplemented

    def __eq__(self, o): return self._cmp(o, lambda a, b: a == b, z3.fpEQ)
    def __ne__(self, o): return self._cmp(o, lambda a, b: a != b, lambda a, b: z3.Not(z3.fpEQ(a, b)))
    def __lt__(self, o): return self._cmp(o, lambda a, b: a < b, z3.fpLT)
    def __le__(self, o): return self._cmp(o, lambda a, b: a <= b, z3.fpLEQ)
    def __gt__(self, o): return self._cmp(o, lambda a, b: a > b, z3.fpGT)
    def __ge__(self, o): return self._cmp(o, lambda a, b: a >= b, z3.fpGEQ)
    def __bool__(self): return bool(SymBool(self.e != 0))
    def __hash__(self): raise Unsupported("hash of FInt")

    def _bin(self, o, f):
        try:
            return FInt(f(self.e, _lift(o)))
        except TypeError:
            return NotImplemented

    def __add__(self, o): return self._bin(o, lambda a, b: a + b)
    __radd__ = __add__
    def __sub__(self, o): return self._bin(o, lambda a, b: a - b)
    def __rsub__(self, o): return FInt(_lift(o) - self.e)
    def __neg__(self): return FInt(-self.e)
    def __abs__(self): return FInt(z3.If(self.e < 0, -self.e, self.e))

    def __mul__(self, o):
        if type(o) is float:
            return FFloat(z3.fpMul(RNE, _to_f64(self.e), z3.FPVal(o, F64)))
        if type(o) is FFloat:
            return NotImplemented
        return self._bin(o, lambda a, b: a * b)
    __rmul__ = __mul__

    def __floordiv__(self, o):
        if type(o) is int and o > 0:
            d = _bv(o)
            q = self.e / d
            r = z3.SRem(self.e, d)
            return FInt(z3.If(z3.And(r != 0, self.e < 0), q - 1, q))
        raise Unsupported("F-mode floor division by symbolic/non-positive value")

    def __mod__(self, o):
        if type(o) is int and o > 0:
            return self - (self // o) * o
        raise Unsupported("F-mode modulo")

    def __divmod__(self, o): return self // o, self % o

    def __truediv__(self, o):
        if type(o) in (int, float) and o > 0 and float(o).is_integer():
            # Float64 operands (cvc5 supports only Float32/Float64 by default): exact for |a| < 2^53,
            # a candidate-only approximation above (CPython rounds the exact quotient once)
            return FFloat(z3.fpDiv(RNE, _to_f64(self.e), z3.FPVal(float(int(o)), F64)))
        raise Unsupported("F-mode true division")

    def __round__(self, nd=None): return self
    def __trunc__(self): return self
    def __index__(self): raise Unsupported("index() of FInt reached C level")

    def __struct_pack__(self, fmt):
        from .rmode import Packed

        return Packed.pack(fmt, self)

    def __format__(self, s): return "<FInt>"
    def __repr__(self): return "<FInt>"


class FFloat:
    __class__ = property(lambda self: float)  # C-level isinstance() / `match` class patterns see the represented type
    __slots__ = ("e",)
    _is_float_proxy = True

    def __init__(self, e):
        self.e = e

    def _o(self, o):
        t = type(o)
        if t is FFloat:
            return o.e
        if t is FInt:
            return _to_f64(o.e)
        if t in (int, float):
            return z3.FPVal(float(o), F64)
        raise TypeError(t.__name__)

    def __mul__(self, o): return FFloat(z3.fpMul(RNE, self.e, self._o(o)))
    __rmul__ = __mul__
    def __truediv__(self, o): return FFloat(z3.fpDiv(RNE, self.e, self._o(o)))
    def __add__(self, o): return FFloat(z3.fpAdd(RNE, self.e, self._o(o)))
    __radd__ = __add__
    def __sub__(self, o): return FFloat(z3.fpSub(RNE, self.e, self._o(o)))
    def __neg__(self): return FFloat(z3.fpNeg(self.e))

    def _cmp(self, o, f):
        try:
            return SymBool(f(self.e, self._o(o)))
        except TypeError:
            return NotImplemented

    def __eq__(self, o): return self._cmp(o, z3.fpEQ)
    def __ne__(self, o): return self._cmp(o, lambda a, b: z3.Not(z3.fpEQ(a, b)))
    def __lt__(self, o): return self._cmp(o, z3.fpLT)
    def __le__(self, o): return self._cmp(o, z3.fpLEQ)
    def __gt__(self, o): return self._cmp(o, z3.fpGT)
    def __ge__(self, o): return self._cmp(o, z3.fpGEQ)
    def __hash__(self): raise Unsupported("hash of FFloat")
    def __isfinite__(self): return SymBool(z3.And(z3.Not(z3.fpIsNaN(self.e)), z3.Not(z3.fpIsInf(self.e))))

    def __round__(self, nd=None):
        if nd is not None:
            raise Unsupported("round(x, n) in F-mode")
        return FInt(z3.fpToSBV(RTZ, z3.fpRoundToIntegral(RNE, self.e), z3.BitVecSort(WB)))

    def __trunc__(self):
        return FInt(z3.fpToSBV(RTZ, self.e, z3.BitVecSort(WB)))

    def split_seconds(self):
        """CPython _PyTime_ObjectToTimeval(ROUND_HALF_EVEN) on a double"""
        ip = z3.fpRoundToIntegral(RTZ, self.e)
        frac = z3.fpSub(RNE, self.e, ip)  # exact
        scaled = z3.fpRoundToIntegral(RNE, z3.fpMul(RNE, frac, z3.FPVal(1e6, F64)))
        us = FInt(z3.fpToSBV(RTZ, scaled, z3.BitVecSort(WB)))
        secs = FInt(z3.fpToSBV(RTZ, ip, z3.BitVecSort(WB)))
        if bool(us >= 1_000_000):
            us, secs = us - 1_000_000, secs + 1
        elif bool(us < 0):
            us, secs = us + 1_000_000, secs - 1
        return secs, us

    def __float__(self): raise Unsupported("float() of FFloat reached C level")
    def __format__(self, s): return "<FFloat>"
    def __repr__(self): return "<FFloat>"


from . import sym as _S

_S._PROXY_BASE.update({FInt: int, FFloat: float})


def solve_external(assertions, names, tlimit_s=60):
    """Decide sat with the cvc5 binary; -> dict name -> int | None.  names: {name: (z3 var, signed?)}"""
    exe = shutil.which("cvc5")
    if exe is None:
        return None
    s = z3.Solver()
    s.add(*assertions)
    smt = "(set-logic ALL)\n(set-option :produce-models true)\n" + s.to_smt2().replace("(check-sat)", "")
    for a, b in (("bvsdiv_i", "bvsdiv"), ("bvsrem_i", "bvsrem"), ("bvudiv_i", "bvudiv"), ("bvurem_i", "bvurem"), ("bvsmod_i", "bvsmod")):
        smt = smt.replace(a, b)  # z3-internal names of division with a non-zero divisor
    smt += "(check-sat)\n" + "".join(f"(get-value ({n}))\n" for n in names)
    with tempfile.NamedTemporaryFile("w", suffix=".smt2", delete=False) as fh:
        fh.write(smt)
        path = fh.name
    try:
        out = subprocess.run([exe, f"--tlimit={tlimit_s * 1000}", path], capture_output=True, text=True, timeout=tlimit_s + 20).stdout
    except subprocess.TimeoutExpired:
        return None
    finally:
        import os

        try:
            os.remove(path)
        except OSError:
            pass
    lines = out.strip().splitlines()
    if not lines or lines[0].strip() != "sat" or "(error" in out:
        return None
    import re

    vals = {}
    for n in names:
        m = re.search(r"\(\(" + re.escape(n) + r"\s+#([xb])([0-9a-fA-F]+)\)\)", out)
        if not m:
            return None
        v = int(m.group(2), 16 if m.group(1) == "x" else 2)
        width = len(m.group(2)) * (4 if m.group(1) == "x" else 1)
        if v >= 1 << (width - 1):
            v -= 1 << width
        vals[n] = v
    return vals
