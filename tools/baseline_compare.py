"""Run the repo's pinned baseline (BASELINE.json cmd) and compare with its stable_pass list."""
import json, subprocess, sys, os, xml.etree.ElementTree as ET
b = json.load(open('/root/.vp/BASELINE.json'))
out = sys.argv[1] if len(sys.argv) > 1 else '/tmp/baseline.junit.xml'
cmd = b['cmd'].replace('<file>', out)
if '--run' in sys.argv:
    subprocess.run(cmd, shell=True, stdout=open(out + '.log', 'w'), stderr=subprocess.STDOUT)
t = ET.parse(out)
passed = set()
for tc in t.iter('testcase'):
    if not any(ch.tag in ('failure', 'error', 'skipped') for ch in tc):
        passed.add(f"{tc.get('classname')}::{tc.get('name')}")
stable = set(b['stable_pass'])
missing = sorted(stable - passed)
print('stable_pass', len(stable), 'passed now', len(passed), 'missing', len(missing))
for m in missing[:20]: print('  MISSING', m)
sys.exit(1 if missing else 0)
