"""C07 - messages are self-delimiting on a sequential stream; bytes and values do not
depend on the kind of sink/source.

One write-only sink and one read-only source (any attribute other than write/read is
recorded by a monitor and fails the check).  Stream = lead bytes ++ m x (header, payload)
++ trail bytes, all symbolic.  The same instances are written to a sink whose write()
returns a count and to one whose write() returns None (asyncio.StreamWriter); the item
sequences must be identical.  One model per class is replayed concretely into a real
io.BytesIO, a real asyncio.StreamWriter over an in-process transport and a real
socket.socketpair() makefile pair."""
from __future__ import annotations

import os
import time

import z3

from .. import kref, shapes
from ..core import Stats, Unsupported, Violation, explore
from ..models import ProtocolMonitor, Sink, Src
from ..sym import Blob, SymBool, SymBytes, byte_of, sym_var


def tier_opts(tier):
    if tier == "quick":
        return dict(regions=shapes.REGIONS_QUICK[:2], max_array=1, m=2, max_shapes=10, max_dev=1, per_shape_paths=8, class_paths=40, class_seconds=20)
    return dict(regions=shapes.REGIONS_QUICK, max_array=2, m=3, max_shapes=120, max_dev=2, per_shape_paths=24, class_paths=500, class_seconds=120)


class Stream:
    def __init__(self, cls, shape, opts):
        from kio.serial import entity_reader, entity_writer

        self.cls = cls
        self.hcls = cls.__header_schema__
        self.shape = shape
        self.opts = opts
        self.m = opts["m"]
        self.wh, self.rh = entity_writer(self.hcls), entity_reader(self.hcls)
        self.wp, self.rp = entity_writer(cls), entity_reader(cls)

    def build_all(self, b):
        msgs = []
        for i in range(self.m):
            h = b.entity(self.hcls, f"h{i}")
            x = b.entity(self.cls, f"x{i}")
            msgs.append((h, x))
        return msgs

    def write_all(self, sink, lead, msgs, trail):
        from kio.serial.errors import OutOfBoundValue

        sink.write(SymBytes(lead))
        for h, x in msgs:
            self.wh(sink, h)
            self.wp(sink, x)
        sink.write(SymBytes(trail))

    def run(self, c):
        from kio.serial.errors import OutOfBoundValue

        b = shapes.Builder(c, self.shape, regions=self.opts["regions"], max_array=self.opts["max_array"])
        msgs = self.build_all(b)
        c.notes["builder"] = b
        c.notes["msgs"] = msgs
        L, _ = sym_var("lead#len", 0, 300)
        lead = [byte_of(z3.BitVec("lead0", 8)), Blob(L, "bytes", name="lead"), byte_of(z3.BitVec("lead1", 8))]
        trail = [byte_of(z3.BitVec("trail0", 8)), byte_of(z3.BitVec("trail1", 8))]
        c.notes["lead"], c.notes["trail"] = lead, trail
        monA, monB = ProtocolMonitor(), ProtocolMonitor()
        sinkA = Sink(monA, returns_count=True)
        sinkB = Sink(monB, returns_count=False)
        try:
            self.write_all(sinkA, lead, msgs, trail)
            self.write_all(sinkB, lead, msgs, trail)
        except OutOfBoundValue:
            c.outcome = "refused"
            return []
        except Unsupported:
            raise
        except Exception as e:
            raise Violation("writer_raises", {"exception": type(e).__name__, "msg": str(e)[:200]})
        obl = []
        same, why = kref.items_equal(sinkA.items, sinkB.items)
        obl.append(("bytes_independent_of_sink_kind", same))
        keepA, keepB = sinkA.retained_unchanged(), sinkB.retained_unchanged()
        obl.append(("buffers_handed_to_write_are_not_reused", keepA if keepB is True else (keepB if keepA is True else (False if False in (keepA, keepB) else z3.And(keepA, keepB)))))
        obl.append(("encoder_only_calls_write", not (monA.forbidden or monB.forbidden)))
        if monA.forbidden or monB.forbidden:
            c.notes["violation_info"] = {"sink_attributes_used": sorted(set(monA.forbidden + monB.forbidden))}
        c.notes["sink_items"] = list(sinkA.items)
        monR = ProtocolMonitor()
        src = Src(SymBytes(sinkA.items), monitor=monR)
        got_lead = src.read(L + 2)
        decoded = []
        try:
            for _ in range(self.m):
                h = self.rh(src)
                x = self.rp(src)
                decoded.append((h, x))
        except Unsupported:
            raise
        except Exception as e:
            raise Violation("messages_decode_back_to_back", {"exception": type(e).__name__, "msg": str(e)[:200]})
        ok = True
        for (h, x), (h2, x2) in zip(msgs, decoded):
            for a, bb in ((h, h2), (x, x2)):
                eq = (bb == a)
                if type(eq) is SymBool:
                    eq = bool(eq)
                ok = ok and bool(eq)
        obl.append(("messages_decode_back_to_back", ok))
        rest, why = kref.items_equal(src.remaining().items, trail)
        obl.append(("exactly_the_trailing_bytes_remain", rest))
        obl.append(("decoder_only_calls_read", not monR.forbidden and src.bad_arg is None))
        if monR.forbidden:
            c.notes["violation_info"] = {"source_attributes_used": sorted(set(monR.forbidden))}
        c.outcome = "decoded"
        return obl

    def witness(self, c, model, clause, info):
        b = c.notes["builder"]
        m = shapes.prefer_small(c, b.leaves, extra=c.notes.get("neg_clause")) or model
        msgs = [[shapes.to_jsonable(shapes.concretise(h, m)), shapes.to_jsonable(shapes.concretise(x, m))] for h, x in c.notes["msgs"]]
        lead = shapes.concretise(SymBytes(c.notes["lead"]), m)
        trail = shapes.concretise(SymBytes(c.notes["trail"]), m)
        return {"class": shapes.class_id(self.cls), "msgs": msgs, "lead": lead.hex(), "trail": trail.hex(), "info": info}


class ForeignStream(Stream):
    """the same stream, but written by a conforming PEER: every message comes from the reference
    encoder and carries an unknown tagged field in the header and/or the payload (where the
    version is flexible).  Reading must stay aligned: all messages decode back to back to the
    values on the wire and exactly the trailing bytes remain."""

    def build_all(self, b):
        msgs = []
        for i in range(self.m):
            h = b.entity(self.hcls, f"h{i}")
            x = b.entity(self.cls, f"x{i}")
            msgs.append((h, x))
        return msgs

    def run(self, c):
        shape = dict(self.shape)
        for i in range(self.m):
            if self.hcls.__flexible__:
                shape.setdefault(f"h{i}#unk", 1)
            if self.cls.__flexible__:
                shape.setdefault(f"x{i}#unk", 1)
        b = shapes.Builder(c, shape, regions=self.opts["regions"], max_array=self.opts["max_array"], wire=True)
        msgs = self.build_all(b)
        c.notes["builder"] = b
        c.notes["msgs"] = msgs
        L, _ = sym_var("lead#len", 0, 300)
        lead = [byte_of(z3.BitVec("lead0", 8)), Blob(L, "bytes", name="lead"), byte_of(z3.BitVec("lead1", 8))]
        trail = [byte_of(z3.BitVec("trail0", 8)), byte_of(z3.BitVec("trail1", 8))]
        c.notes["lead"], c.notes["trail"] = lead, trail
        items = list(lead)
        for h, x in msgs:
            items += kref.encode(h, b.extras) + kref.encode(x, b.extras)
        items += trail
        c.notes["wire_items"] = items
        monR = ProtocolMonitor()
        src = Src(SymBytes(items), monitor=monR)
        src.read(L + 2)
        ok = True
        try:
            for h, x in msgs:
                h2 = self.rh(src)
                x2 = self.rp(src)
                for a, bb in ((h, h2), (x, x2)):
                    eq = (bb == a)
                    if type(eq) is SymBool:
                        eq = bool(eq)
                    ok = ok and bool(eq)
        except Unsupported:
            raise
        except Exception as e:
            raise Violation("peer_written_messages_decode_back_to_back", {"exception": type(e).__name__, "msg": str(e)[:200]})
        rest, _ = kref.items_equal(src.remaining().items, trail)
        c.outcome = "decoded_foreign"
        return [("peer_written_messages_decode_back_to_back", ok), ("exactly_the_trailing_bytes_remain_after_peer_messages", rest),
                ("decoder_only_calls_read", not monR.forbidden and src.bad_arg is None)]

    def witness(self, c, model, clause, info):
        b = c.notes["builder"]
        m = shapes.prefer_small(c, b.leaves, extra=c.notes.get("neg_clause")) or model
        try:
            data = shapes.concretise(SymBytes(c.notes["wire_items"]), m)
        except shapes.TooLarge:
            data = None
        msgs = [[shapes.to_jsonable(shapes.concretise(h, m)), shapes.to_jsonable(shapes.concretise(x, m))] for h, x in c.notes["msgs"]]
        return {"class": shapes.class_id(self.cls), "foreign": True, "bytes": None if data is None else data.hex(), "msgs": msgs,
                "lead_len": len(shapes.concretise(SymBytes(c.notes["lead"]), m)), "trail": shapes.concretise(SymBytes(c.notes["trail"]), m).hex()}


# ---- concrete stream kinds ------------------------------------------------------------------
class _CaptureTransport:
    def __init__(self):
        self.data = bytearray()
        self._closing = False

    def write(self, b):
        self.data += bytes(b)

    def is_closing(self):
        return self._closing

    def get_extra_info(self, name, default=None):
        return default

    def close(self):
        self._closing = True


def real_stream_kinds(hcls, cls, msgs, lead, trail):
    """write/read the concrete messages through real stream objects; -> dict kind -> ok"""
    import asyncio
    import io
    import socket

    from kio.serial import entity_reader, entity_writer

    wh, wp, rh, rp = entity_writer(hcls), entity_writer(cls), entity_reader(hcls), entity_reader(cls)
    out = {}
    # 1. io.BytesIO
    buf = io.BytesIO()
    buf.write(lead)
    for h, x in msgs:
        wh(buf, h)
        wp(buf, x)
    buf.write(trail)
    ref = buf.getvalue()
    rd = io.BytesIO(ref)
    rd.read(len(lead))
    ok = all((rh(rd) == h) and (rp(rd) == x) for h, x in msgs) and rd.read() == trail
    out["io.BytesIO"] = ok
    # 2. asyncio.StreamWriter over an in-process transport
    loop = asyncio.new_event_loop()
    try:
        tr = _CaptureTransport()
        reader = asyncio.StreamReader(loop=loop)
        proto = asyncio.StreamReaderProtocol(reader, loop=loop)
        sw = asyncio.StreamWriter(tr, proto, reader, loop)
        sw.write(lead)
        for h, x in msgs:
            wh(sw, h)
            wp(sw, x)
        sw.write(trail)
        out["asyncio.StreamWriter"] = bytes(tr.data) == ref
    finally:
        loop.close()
    # 3. socket.socketpair() makefile: write-only file object / read-only file object
    if len(ref) < 60000:
        a, b = socket.socketpair()
        try:
            wf = a.makefile("wb")
            rf = b.makefile("rb")
            wf.write(lead)
            for h, x in msgs:
                wh(wf, h)
                wp(wf, x)
            wf.write(trail)
            wf.flush()
            a.shutdown(socket.SHUT_WR)
            rf.read(len(lead))
            ok = all((rh(rf) == h) and (rp(rf) == x) for h, x in msgs) and rf.read() == trail
            out["socketpair.makefile"] = ok
            wf.close()
            rf.close()
        finally:
            a.close()
            b.close()
    return out


def validate_path(stream, c):
    b = c.notes.get("builder")
    if b is None or "sink_items" not in c.notes:
        return None
    m = shapes.prefer_small(c, b.leaves)
    if m is None:
        return None
    try:
        msgs = [(shapes.concretise(h, m), shapes.concretise(x, m)) for h, x in c.notes["msgs"]]
        lead = shapes.concretise(SymBytes(c.notes["lead"]), m)
        trail = shapes.concretise(SymBytes(c.notes["trail"]), m)
        sym = shapes.concretise(SymBytes(c.notes["sink_items"]), m)
    except shapes.TooLarge:
        return None
    kinds = real_stream_kinds(stream.hcls, stream.cls, msgs, lead, trail)
    import io

    from kio.serial import entity_writer

    buf = io.BytesIO()
    buf.write(lead)
    for h, x in msgs:
        entity_writer(stream.hcls)(buf, h)
        entity_writer(stream.cls)(buf, x)
    buf.write(trail)
    kinds["symbolic_output_equals_real_bytes"] = buf.getvalue() == sym
    return kinds


def task_class(args):
    cid, opts = args
    t0 = time.time()
    if opts.get("deadline") and t0 > opts["deadline"]:
        return {"class": cid, "stats": Stats().to_json(), "shapes": 0, "kinds_ok": 0, "kinds_bad": [], "finite": {}, "wall": 0, "skipped": True}
    cls = shapes.class_by_id(cid)
    stats = Stats()
    deadline = t0 + opts["class_seconds"]
    probe = Stream(cls, {}, opts)
    nshapes = 0
    kinds_ok, kinds_bad = 0, []
    for shape, depth in shapes.shape_schedule(probe.build_all, opts["max_shapes"], opts["max_dev"], regions=opts["regions"], max_array=opts["max_array"]):
        if stats.paths >= opts["class_paths"] or time.time() > deadline:
            break
        h = Stream(cls, shape, opts)
        first = [nshapes < 2]

        def on_path(c, first=first, h=h):
            nonlocal kinds_ok
            if first[0]:
                first[0] = False
                try:
                    k = validate_path(h, c)
                except Exception as e:
                    k = {"validation_crashed:" + type(e).__name__: False}
                if k:
                    bad = [n for n, ok in k.items() if not ok]
                    if bad:
                        kinds_bad.extend(bad)
                    else:
                        kinds_ok += 1

        explore(h, max_paths=opts["per_shape_paths"], stats=stats, deadline=deadline, range_bound=opts["max_array"] + 1, on_path=on_path)
        nshapes += 1
    if cls.__flexible__ or cls.__header_schema__.__flexible__:
        from .c10 import hints_for

        explore(ForeignStream(cls, {}, opts), max_paths=opts["per_shape_paths"], stats=stats, deadline=deadline + 10, range_bound=opts["max_array"] + 1,
                hints=sorted(set(hints_for(cls)) | set(hints_for(cls.__header_schema__))))
    return {"class": cid, "stats": stats.to_json(), "shapes": nshapes, "kinds_ok": kinds_ok, "kinds_bad": kinds_bad, "wall": round(time.time() - t0, 2)}


def payload_classes():
    return [c for c in shapes.all_entity_classes() if hasattr(c, "__header_schema__") and hasattr(c, "__api_key__")
            and c.__type__.name in ("request", "response")]


def check(tier):
    import random

    from .. import install, runner

    t0 = time.time()
    rep = install.install()
    opts = tier_opts(tier)
    if tier == "thorough":
        opts["deadline"] = t0 + 25 * 60
    pcs = payload_classes()
    if tier == "quick":
        seen = {}
        for c in pcs:
            seen.setdefault((shapes.plan_signature(c), c.__header_schema__), c)
        targets = list(seen.values())
    else:
        targets = pcs
    if os.environ.get("VERIF_LIMIT"):
        targets = targets[: int(os.environ["VERIF_LIMIT"])]
    random.Random(runner.seed()).shuffle(targets)
    total = Stats()
    kinds_ok = 0
    kinds_bad = []
    samples = []
    for r in runner.pool_map(task_class, [(shapes.class_id(c), opts) for c in targets], progress=200):
        st = Stats.from_json(r["stats"])
        total.merge(st)
        kinds_ok += r["kinds_ok"]
        kinds_bad += [(r["class"], k) for k in r["kinds_bad"]]
        if len(samples) < 4:
            samples.append({"class": r["class"], "paths": st.paths, "shapes": r["shapes"], "messages_per_stream": opts["m"]})
    inconclusive = []
    if total.unsupported:
        inconclusive.append(f"{total.unsupported} path(s) could not be followed by the engine: {list(total.unsupported_msgs.items())[:5]}")
    if kinds_bad:
        inconclusive.append(f"concrete stream-kind replay disagrees: {kinds_bad[:5]}")
    if total.paths == 0:
        inconclusive.append("no path completed (vacuous)")
    cov = runner.mc_coverage(
        total, functions=["kio.serial._serialize.entity_writer", "kio.serial._parse.entity_reader", "kio.serial.writers.* (write calls on the sink, private BytesIO for tagged sections)",
                          "kio.serial.readers.read_exact and all readers"],
        bounds={"messages_per_stream": opts["m"], "lead": "2 symbolic bytes + an opaque block of 0..300 bytes", "trail": "2 symbolic bytes",
                "classes": len(targets), "of_payload_classes": len(pcs), "shapes": "base + deviations up to depth %d (cap %d shapes)" % (opts["max_dev"], opts["max_shapes"]),
                "sink_kinds_symbolic": ["write() returns the byte count", "write() returns None (asyncio.StreamWriter)"],
                "stream_kinds_concrete": ["io.BytesIO", "asyncio.StreamWriter over an in-process transport", "socket.socketpair() makefile('wb'/'rb')"]},
        outside=["more than %d messages per stream" % opts["m"], "real OS stream kinds other than at the concretely replayed points", "sources that return short reads without being at end of stream"],
        rule="one state = one completed symbolic path of writing and reading a whole stream", extra={"concrete_stream_kind_replays": kinds_ok, "classes_checked": len(targets),
              "rebinding_report": {k: v for k, v in rep.items() if k != "__keep__" and v}, "source_hashes": install.source_hashes()})
    cov["traces_validated_against_impl"] = kinds_ok
    return runner.finish("C07", tier, t0, level="model_checking", coverage=cov, assumptions=["A1", "A3", "A7", "A8"], cex=total.cex,
                         inconclusive=inconclusive, samples=samples)
