"""C13 - every entity is self-describing and its description is coherent (finite facts)."""
from __future__ import annotations

import dataclasses
import time

import z3

from .. import facts as F
from .. import shapes


def rules():
    crow, frow = F.extract()
    q = F.Queries()
    ft = F.Table("f", frow, dict(annotation_ok="bool", is_array="bool", nullable="bool", item_nullable="bool", is_entity="bool", inner_base="cat",
                                 kafka_type="cat", kafka_type_is_str="bool", tag="int", tag_is_int="bool", has_default="bool", default_inhabits="bool",
                                 class_flexible="bool", cidx="int", pos="int"))
    d = lambda r: f"{r['cid']}.{r['name']}"
    kt = ft.col("kafka_type")
    known = [ft.code("kafka_type", k) for k in F.PINNED_PYTYPE]
    none_kt = ft.code("kafka_type", None)
    q.exists_bad("annotations_are_T_or_T|None_or_tuple[T,...]", [ft], z3.Not(ft.col("annotation_ok")), d)
    q.exists_bad("primitive_fields_name_a_known_kafka_type", [ft], z3.And(z3.Not(ft.col("is_entity")), z3.Not(z3.Or(*[kt == c for c in known]))), d)
    q.exists_bad("kafka_type_is_a_string", [ft], z3.Not(ft.col("kafka_type_is_str")), d)
    q.exists_bad("entity_fields_carry_no_kafka_type", [ft], z3.And(ft.col("is_entity"), kt != none_kt), d)
    # kafka type <-> declared python type, through the pinned table
    agree = []
    for k, py in F.PINNED_PYTYPE.items():
        agree.append(z3.And(kt == ft.code("kafka_type", k), ft.col("inner_base") == ft.code("inner_base", py)))
    q.exists_bad("kafka_type_matches_declared_python_type", [ft], z3.And(z3.Not(ft.col("is_entity")), z3.Or(*[kt == c for c in known]), z3.Not(z3.Or(*agree))), d)
    wire_null = z3.Or(*[kt == ft.code("kafka_type", k) for k in F.WIRE_NULL])
    # (tagged fields are no exception: absence is expressed by omitting the tag, not by None, unless the type itself has a null)
    q.exists_bad("only_types_with_a_wire_null_are_nullable", [ft],
                 z3.And(ft.col("nullable"), z3.Not(ft.col("is_entity")), z3.Not(ft.col("is_array")), z3.Not(wire_null)), d)
    q.exists_bad("array_items_are_nullable_only_for_uuid", [ft], z3.And(ft.col("item_nullable"), kt != ft.code("kafka_type", "uuid")), d)
    q.exists_bad("uuid_fields_admit_None_(all_zero_is_null)", [ft], z3.And(kt == ft.code("kafka_type", "uuid"), z3.Not(ft.col("is_array")), z3.Not(ft.col("nullable"))), d)
    q.exists_bad("defaults_inhabit_the_declared_type", [ft], z3.Not(ft.col("default_inhabits")), d)
    q.exists_bad("tags_are_non_negative_integers", [ft], z3.Or(z3.Not(ft.col("tag_is_int")), z3.And(ft.col("tag") > -(10**9), ft.col("tag") < 0)), d)
    q.exists_bad("tags_only_in_flexible_versions", [ft], z3.And(ft.col("tag") >= 0, z3.Not(ft.col("class_flexible"))), d)
    tagged = [r for r in frow if isinstance(r["tag"], int)]
    gt = F.Table("g", F.groups(tagged, lambda r: (r["cidx"], r["tag"]), {"fields": lambda r: r["name"]}) or [{"group": 0, "size": 1, "first": "-", "fields": 1}],
                 dict(size="int", fields="int"))
    q.exists_bad("tags_unique_within_a_class", [gt], gt.col("size") > 1, lambda r: str(r["first"]))
    gp = F.Table("p", F.groups(frow, lambda r: (r["cidx"], r["pos"]), {"fields": lambda r: r["name"]}), dict(size="int"))
    q.exists_bad("field_positions_are_declaration_order", [gp], gp.col("size") > 1, lambda r: str(r["first"]))
    # concrete probes on the real functions (finite): defaults resolvable, readers/writers derivable
    from kio.serial import entity_reader, entity_writer
    from kio.serial._implicit_defaults import get_tagged_field_default

    bad_default, bad_rw = [], []
    for r in crow:
        c = r["cls"]
        for f in dataclasses.fields(c):
            if "tag" in f.metadata:
                try:
                    v = get_tagged_field_default(f)
                    is_array, nullable, inner, _ = __import__("kv.kref", fromlist=["x"]).split_annotation(__import__("kv.kref", fromlist=["x"]).field_type(c, f))
                    if not F.default_inhabits(v, is_array, nullable, inner):
                        bad_default.append(f"{r['cid']}.{f.name}: default {v!r} does not inhabit the type")
                    # KIP-482, computed independently of kio.serial (kv.kref): the declared default, else the zero value of
                    # the type; for a struct the struct of ITS fields' declared-else-zero defaults
                    want = __import__("kv.kref", fromlist=["x"]).implicit_default(c, f)
                    if not (v == want and type(v) is type(want)):
                        bad_default.append(f"{r['cid']}.{f.name}: tagged default {v!r} is not the declared-else-zero default {want!r}")
                except Exception as e:
                    bad_default.append(f"{r['cid']}.{f.name}: {type(e).__name__}: {e}")
        for nullable in (False, True):
            try:
                entity_reader(c, nullable)
                entity_writer(c, nullable)
            except Exception as e:
                bad_rw.append(f"{r['cid']} nullable={nullable}: {type(e).__name__}: {e}")
    q.concrete("every_tagged_field_has_a_resolvable_default", not bad_default, "; ".join(bad_default[:3]))
    q.concrete("reader_and_writer_derivable_for_every_class", not bad_rw, "; ".join(bad_rw[:3]))
    return q, dict(classes=len(crow), fields=len(frow))


def check(tier):
    t0 = time.time()
    q, n = rules()
    return F.finish_facts("C13", tier, t0, q,
                          functions=["dataclasses.fields(T) of every class under kio.schema", "kio.serial._implicit_defaults.get_tagged_field_default", "kio.serial.entity_reader/entity_writer (construction only)"],
                          bounds={"classes": n["classes"], "fields": n["fields"], "exhaustive": True}, outside=["semantics of the derived readers/writers (C01-C06)"],
                          explanation="finite configuration property: facts about all %d classes / %d fields are extracted from the imported modules on every run and each coherence rule is decided by a z3 query over the row index; the pinned kafka-type -> Python-type table lives in kv/facts.py" % (n["classes"], n["fields"]),
                          extra={"exhaustive": True, **n})
