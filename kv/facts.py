"""kv.facts - plain-data facts about every schema class and field, extracted by importing
every module under kio.schema found by walking the package directory, and a tiny helper
to decide rules over the finite fact tables with z3 (row index = the symbolic variable).

This is bounded model finding over a finite table: solver-decided and regenerated from the
tree on every run, but the solver adds no reach beyond a loop here (DESIGN.md 1.6)."""
from __future__ import annotations

import dataclasses
import time
import types
import typing

import z3

from . import kref, shapes

PINNED_PYTYPE = {
    "int8": "i8", "int16": "i16", "int32": "i32", "int64": "i64", "uint8": "u8", "uint16": "u16", "uint32": "u32", "uint64": "u64",
    "float64": "f64", "string": "str", "bytes": "bytes", "records": "Records", "uuid": "UUID", "bool": "bool", "error_code": "ErrorCode",
    "timedelta_i32": "i32Timedelta", "timedelta_i64": "i64Timedelta", "datetime_i64": "TZAware",
}
WIRE_NULL = {"string", "bytes", "records", "uuid", "datetime_i64"}
IMMUTABLE_LEAVES = {"i8", "i16", "i32", "i64", "u8", "u16", "u32", "u64", "f64", "str", "bytes", "Records", "UUID", "bool", "ErrorCode",
                    "i32Timedelta", "i64Timedelta", "TZAware", "TZAwareMicros", "int", "float", "NoneType"}


def base_type_name(tp):
    """name of the pinned primitive type `tp` is or derives from (BrokerId -> i32, TopicName -> str)"""
    if not isinstance(tp, type):
        return repr(tp)
    for c in tp.__mro__:
        if c.__name__ in IMMUTABLE_LEAVES and c.__name__ not in ("int", "float"):
            # Records derives from bytes: report the most specific pinned name
            return c.__name__
    for c in tp.__mro__:
        if c.__name__ in ("int", "float"):
            return c.__name__
    return tp.__name__


def default_inhabits(default, is_array, nullable, inner):
    import datetime
    import uuid

    if default is dataclasses.MISSING:
        return True
    if default is None:
        return nullable
    if is_array:
        return isinstance(default, tuple) and all(default_inhabits(x, False, False, inner) for x in default)
    try:
        return isinstance(default, inner)
    except TypeError:
        return False


def extract():
    """-> (class_rows, field_rows)"""
    classes = shapes.all_entity_classes()
    crow, frow = [], []
    index = {c: k for k, c in enumerate(classes)}
    for k, c in enumerate(classes):
        params = getattr(c, "__dataclass_params__", None)
        parts = c.__module__.split(".")
        h = getattr(c, "__header_schema__", None)
        try:
            version_in_path = int(parts[3][1:])
        except (IndexError, ValueError):
            version_in_path = None
        crow.append(dict(
            idx=k, cid=shapes.class_id(c), cls=c, module=c.__module__, name=c.__name__, api=parts[2] if len(parts) > 2 else None,
            path_version=version_in_path, path_type=parts[4] if len(parts) > 4 else None,
            type=getattr(getattr(c, "__type__", None), "name", None), version=int(c.__version__) if hasattr(c, "__version__") else None,
            flexible=bool(c.__flexible__) if hasattr(c, "__flexible__") else None, api_key=int(c.__api_key__) if hasattr(c, "__api_key__") else None,
            header=shapes.class_id(h) if h is not None else None,
            frozen=bool(params and params.frozen), eq=bool(params and params.eq), kw_only=bool(params and params.kw_only),
            slots=bool(params and getattr(params, "slots", False)), has_slots_attr="__slots__" in c.__dict__, order=bool(params and params.order),
            unsafe_hash=bool(params and params.unsafe_hash), nfields=len(dataclasses.fields(c)),
        ))
        for pos, f in enumerate(dataclasses.fields(c)):
            try:
                tp = kref.field_type(c, f)
                is_array, nullable, inner, item_nullable = kref.split_annotation(tp)
                ann_ok = True
            except Exception:
                is_array = nullable = item_nullable = False
                inner = None
                ann_ok = False
            is_entity = dataclasses.is_dataclass(inner) if inner is not None else False
            kt = f.metadata.get("kafka_type")
            tag = f.metadata.get("tag")
            frow.append(dict(
                cidx=k, cid=shapes.class_id(c), name=f.name, pos=pos, annotation_ok=ann_ok, is_array=is_array, nullable=nullable,
                item_nullable=item_nullable, is_entity=is_entity, inner_name=(inner.__name__ if isinstance(inner, type) else repr(inner)),
                inner_base=(None if is_entity or inner is None else base_type_name(inner)), inner_cidx=(index.get(inner) if is_entity else None),
                kafka_type=kt, kafka_type_is_str=isinstance(kt, str) or kt is None, tag=tag, tag_is_int=(tag is None or (isinstance(tag, int) and not isinstance(tag, bool))),
                has_default=f.default is not dataclasses.MISSING or f.default_factory is not dataclasses.MISSING,
                default_inhabits=default_inhabits(f.default, is_array, nullable, inner) if inner is not None else False,
                compare=f.compare, hash=f.hash, init=f.init, class_flexible=bool(getattr(c, "__flexible__", False)),
                metadata_keys=sorted(f.metadata.keys()),
            ))
    return crow, frow


class Table:
    """A finite table for the solver: the symbolic row is a vector of variables (one per
    column) constrained to equal one of the table's rows (a disjunction over the distinct
    value tuples of the columns a query mentions)."""

    def __init__(self, name, rows, columns):
        self.name = name
        self.rows = rows
        self.columns = columns
        vocab = sorted({repr(r[c]) for c, srt in columns.items() if srt == "cat" for r in rows})
        self.shared = {v: n for n, v in enumerate(vocab)}  # one vocabulary for all categorical columns
        self.vars = {}
        for col, sort in columns.items():
            self.vars[col] = z3.Bool(f"{name}_{col}") if sort == "bool" else z3.Int(f"{name}_{col}")

    def value(self, r, col):
        sort = self.columns[col]
        v = r[col]
        if sort == "bool":
            return bool(v)
        if sort == "int":
            return -(10**9) if v is None else int(v)
        return self.shared[repr(v)]

    def col(self, name):
        return self.vars[name]

    def code(self, col, value):
        return self.shared.get(repr(value), -1)

    def constraint(self, used):
        cols = [c for c in self.columns if f"{self.name}_{c}" in used]
        tuples = {}
        for k, r in enumerate(self.rows):
            tuples.setdefault(tuple(self.value(r, c) for c in cols), k)
        self._last = (cols, tuples)
        if not cols:
            return z3.BoolVal(len(self.rows) > 0), len(tuples)
        return z3.Or(*[z3.And(*[self.vars[c] == v for c, v in zip(cols, t)]) for t in tuples]), len(tuples)

    def row_of(self, model):
        cols, tuples = self._last
        key = []
        for c in cols:
            v = model.eval(self.vars[c], model_completion=True)
            key.append(z3.is_true(v) if self.columns[c] == "bool" else v.as_long())
        return self.rows[tuples[tuple(key)]]


def groups(rows, key, attrs):
    """aggregate rows by `key` (a function): one row per group with, for each attr, the number
    of distinct values - turns a two-row rule into a one-row rule the solver decides at once"""
    g = {}
    for r in rows:
        g.setdefault(key(r), []).append(r)
    out = []
    for k, rs in g.items():
        row = {"group": k, "size": len(rs), "first": rs[0].get("cid", str(k))}
        for a, f in attrs.items():
            row[a] = len({repr(f(r)) for r in rs})
        out.append(row)
    return out


def _decl_names(e):
    seen, out, st = set(), set(), [e]
    while st:
        t = st.pop()
        if t.get_id() in seen:
            continue
        seen.add(t.get_id())
        if z3.is_app(t):
            out.add(t.decl().name())
            st.extend(t.children())
        elif z3.is_quantifier(t):
            st.append(t.body())
    return out


class Queries:
    def __init__(self):
        self.results = []  # (name, ok | None, detail)
        self.n = 0
        self.solver_s = 0.0

    def exists_bad(self, name, tables, bad, describe):
        """the rule holds iff `exists row: bad` is unsat; describe(row dict) names the offender"""
        s = z3.Solver()
        s.set("timeout", 120000)
        used = _decl_names(bad)
        for t in tables:
            cons, ntuples = t.constraint(used)
            s.add(cons)
        s.add(bad)
        t0 = time.perf_counter()
        r = s.check()
        self.solver_s += time.perf_counter() - t0
        self.n += 1
        if r == z3.unsat:
            self.results.append((name, True, None))
        elif r == z3.sat:
            m = s.model()
            self.results.append((name, False, describe(tables[0].row_of(m))))
        else:
            self.results.append((name, None, "solver unknown"))

    def concrete(self, name, ok, detail=None):
        self.results.append((name, bool(ok), detail if not ok else None))

    def cex(self):
        return [{"clause": n, "witness": {"facts": n, "detail": d}, "info": {}} for n, ok, d in self.results if ok is False]

    def unknowns(self):
        return [n for n, ok, d in self.results if ok is None]


def finish_facts(prop, tier, t0, q: Queries, *, functions, bounds, outside, explanation, extra=None, stats=None, level="other"):
    from . import runner
    from .core import Stats

    st = stats or Stats()
    for n, ok, d in q.results:
        st.clauses[n] = [1, 1 if ok else 0]
    st.queries += q.n
    st.solver_s += q.solver_s
    st.q_unsat += sum(1 for n, ok, d in q.results if ok)
    cov = runner.mc_coverage(st, functions=functions, bounds=bounds, outside=outside,
                             rule="one obligation = one rule over the finite fact table, decided by a z3 query 'exists row: rule broken' (unsat = rule holds for every row)",
                             extra=dict(extra or {}, facts_queries=[{"rule": n, "holds": ok, "detail": d} for n, ok, d in q.results]))
    cov["explanation"] = explanation
    cov["evaluations"] = max(1, len(q.results) + st.paths)
    cov["distinct_nontrivial"] = max(2, len(q.results))
    cov["states"] = max(1, st.paths + len(q.results))
    cov["transitions"] = max(1, st.queries)
    inconclusive = [f"facts query {n}: solver unknown" for n in q.unknowns()]
    if st.unsupported:
        inconclusive.append(f"{st.unsupported} path(s) could not be followed: {list(st.unsupported_msgs.items())[:4]}")
    samples = [{"rule": n, "holds": ok} for n, ok, d in q.results[:5]]
    return runner.finish(prop, tier, t0, level=level, coverage=cov, assumptions=["A7", "A8"], cex=q.cex() + list(st.cex), inconclusive=inconclusive, samples=samples)
