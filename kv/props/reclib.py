"""Symbolic record batches shared by C17 and C18."""
from __future__ import annotations

import datetime

import z3

from .. import kref, shapes
from .. import sym as S
from ..models import DT, TZ
from ..sym import Blob, SymBytes, sym_var

EPOCH = datetime.datetime(1970, 1, 1, tzinfo=datetime.timezone.utc)
MAX_S = 253402300799
REGIONS = [(0, 62), (63, 8190), (8191, 2**20)]  # zig-zag varint size steps of a length
TS_REPS = [EPOCH + datetime.timedelta(milliseconds=1500), EPOCH, EPOCH + datetime.timedelta(milliseconds=65536002, microseconds=999),
           EPOCH + datetime.timedelta(seconds=1600000000, microseconds=123456), EPOCH + datetime.timedelta(seconds=MAX_S, microseconds=999999)]


def payload(b: shapes.Builder, path, regions):
    """None | opaque bytes with a length region (shape variables)"""
    k = b.alt(path + "?", 2)
    if k == 1:
        return None
    r = b.alt(path + "#len", len(regions))
    if b.c is None:
        return b""
    lo, hi = regions[r]
    n, v = sym_var(path + "#len", lo, hi)
    b.leaves.append(shapes.Leaf(path + "#len", "len", v, (lo, hi)))
    return SymBytes([Blob(n, "bytes", name=path)])


def timestamp(b: shapes.Builder, path, whole_seconds=False, symbolic=True):
    if not symbolic:
        k = b.alt(path + "#t", len(TS_REPS))
        return TS_REPS[k]
    if b.c is None:
        return EPOCH
    secs, v = sym_var(path + ".secs", 0, MAX_S)
    b.leaves.append(shapes.Leaf(path + ".secs", "int", v))
    if whole_seconds:
        micro = 0
    else:
        # microsecond = 1000 * millisecond part + sub-millisecond part (keeps the linear form
        # of the instant visible, so floor division by 1000 needs no fresh quotient variables)
        m, v2 = sym_var(path + ".milli", 0, 999)
        u, v3 = sym_var(path + ".submilli", 0, 999)
        b.leaves.append(shapes.Leaf(path + ".milli", "int", v2))
        b.leaves.append(shapes.Leaf(path + ".submilli", "int", v3))
        micro = m * 1000 + u
    return DT._make(secs, micro, TZ(0), check=None)


MANY_HEADERS = 64


def build_new_batch(b: shapes.Builder, n_records, *, regions=REGIONS[:2], max_headers=2, whole_seconds=False, symbolic_ts=True):
    from kio.records.schema import NewRecordBatch, Record, RecordHeader

    recs = []
    base = b._int("offset0", -(2**63) + 2**33, 2**63 - 1 - 2**33)
    for j in range(n_records):
        p = f"r{j}"
        if j == 0:
            off = base
        else:
            d = b._int(p + ".offset_delta", -(2**31), 2**31 - 1)
            off = base + d
        nh_alts = list(range(max_headers + 1)) + ([MANY_HEADERS] if j == 0 else [])
        nh = nh_alts[b.alt(p + "#headers", len(nh_alts))]
        if nh == MANY_HEADERS:
            # the header count crosses the one-byte zig-zag varint boundary (63 | 64); the headers themselves are tiny and concrete
            headers = tuple(RecordHeader(key=b"k", value=None if i % 2 else b"v") for i in range(nh))
        else:
            headers = tuple(RecordHeader(key=payload(b, f"{p}.h{i}.key", regions), value=payload(b, f"{p}.h{i}.value", regions)) for i in range(nh))
        recs.append(Record(attributes=b._int(p + ".attributes", -128, 127), timestamp=timestamp(b, p + ".ts", whole_seconds, symbolic_ts), offset=off,
                           key=payload(b, p + ".key", regions), value=payload(b, p + ".value", regions), headers=headers))
    return NewRecordBatch(producer_id=b._int("producer_id", -(2**63), 2**63 - 1), producer_epoch=b._int("producer_epoch", -(2**15), 2**15 - 1),
                          partition_leader_epoch=b._int("partition_leader_epoch", -(2**31), 2**31 - 1), base_sequence=b._int("base_sequence", -(2**31), 2**31 - 1),
                          records=tuple(recs), attributes=b._int("attributes", -(2**15), 2**15 - 1))


def concretise_batch(nb, model):
    """NewRecordBatch holding proxies -> real NewRecordBatch"""
    from kio.records.schema import NewRecordBatch, Record, RecordHeader

    cz = lambda v: shapes.concretise(v, model)
    recs = []
    for r in nb.records:
        recs.append(Record(attributes=cz(r.attributes), timestamp=cz(r.timestamp), offset=cz(r.offset), key=cz(r.key), value=cz(r.value),
                           headers=tuple(RecordHeader(key=cz(h.key), value=cz(h.value)) for h in r.headers)))
    return NewRecordBatch(producer_id=cz(nb.producer_id), producer_epoch=cz(nb.producer_epoch), partition_leader_epoch=cz(nb.partition_leader_epoch),
                          base_sequence=cz(nb.base_sequence), records=tuple(recs), attributes=cz(nb.attributes))


def batch_to_json(nb):
    def rec(r):
        return {"attributes": r.attributes, "timestamp_us": ((r.timestamp - EPOCH).days * 86400 + (r.timestamp - EPOCH).seconds) * 10**6 + (r.timestamp - EPOCH).microseconds,
                "offset": r.offset, "key": None if r.key is None else shapes.to_jsonable(bytes(r.key)), "value": None if r.value is None else shapes.to_jsonable(bytes(r.value)),
                "headers": [[None if h.key is None else shapes.to_jsonable(bytes(h.key)), None if h.value is None else shapes.to_jsonable(bytes(h.value))] for h in r.headers]}

    return {"producer_id": nb.producer_id, "producer_epoch": nb.producer_epoch, "partition_leader_epoch": nb.partition_leader_epoch, "base_sequence": nb.base_sequence,
            "attributes": nb.attributes, "records": [rec(r) for r in nb.records]}


def batch_from_json(j):
    from kio.records.schema import NewRecordBatch, Record, RecordHeader

    fj = lambda v: None if v is None else shapes.from_jsonable(v)
    recs = tuple(Record(attributes=r["attributes"], timestamp=EPOCH + datetime.timedelta(microseconds=r["timestamp_us"]), offset=r["offset"], key=fj(r["key"]), value=fj(r["value"]),
                        headers=tuple(RecordHeader(key=fj(k), value=fj(v)) for k, v in r["headers"])) for r in j["records"])
    return NewRecordBatch(producer_id=j["producer_id"], producer_epoch=j["producer_epoch"], partition_leader_epoch=j["partition_leader_epoch"], base_sequence=j["base_sequence"],
                          records=recs, attributes=j["attributes"])


# ---- an independent concrete decoder of the v2 batch format (for replays) ----------------------------
def decode_batch(data: bytes):
    """-> dict of header fields + records with absolute offsets and millisecond timestamps"""
    import crc32c

    pos = 0

    def take(n):
        nonlocal pos
        if pos + n > len(data):
            raise ValueError("truncated")
        r = data[pos:pos + n]
        pos += n
        return r

    def i(n, signed=True):
        return int.from_bytes(take(n), "big", signed=signed)

    def uv():
        v = s = 0
        while True:
            b = take(1)[0]
            v |= (b & 0x7F) << s
            s += 7
            if not b & 0x80:
                return v

    def sv():
        u = uv()
        return (u >> 1) if u % 2 == 0 else -((u + 1) // 2)

    def vb():
        n = sv()
        return None if n < 0 else take(n)

    out = {"base_offset": i(8), "batch_length": i(4), "partition_leader_epoch": i(4), "magic": i(1), "crc": i(4, False)}
    crc_start = pos
    out.update(attributes=i(2), last_offset_delta=i(4), base_timestamp=i(8), max_timestamp=i(8), producer_id=i(8), producer_epoch=i(2), base_sequence=i(4))
    n = i(4)
    recs = []
    for _ in range(n):
        ln = sv()
        end = pos + ln
        r = {"attributes": i(1), "timestamp_ms": out["base_timestamp"] + sv(), "offset": out["base_offset"] + sv(), "key": vb(), "value": vb()}
        r["headers"] = [(vb(), vb()) for _ in range(sv())]
        if pos != end:
            raise ValueError("record length mismatch")
        recs.append(r)
    out["records"] = recs
    out["crc_ok"] = crc32c.crc32c(data[crc_start:pos]) == out["crc"]
    out["length_ok"] = out["batch_length"] == pos - 12
    out["consumed"] = pos
    return out
