import json, sys, glob
import jsonschema
jsonschema.validate(json.load(open('/verif/MANIFEST.json')), json.load(open('/root/.vp/MANIFEST.schema.json')))
es = json.load(open('/root/.vp/EVIDENCE.schema.json'))
for f in sorted(glob.glob('/verif/evidence/*.json')):
    jsonschema.validate(json.load(open(f)), es); print('ok', f)
print('manifest ok')
