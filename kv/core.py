"""kv.core - path exploration over z3 for running kio's real functions on symbolic proxies.

A *path* is one execution of a harness function.  Every Python branch on a symbolic
value calls Ctx.branch(), which asks z3 which sides are feasible under the current
path condition, takes one, and schedules the other as a decision prefix to be replayed
later (re-execution from the start, no solver calls on the replayed prefix).

A harness returns a list of (clause_name, z3 Bool | bool) obligations; for each the
engine decides  pc /\\ not clause.  unsat on every path = the clause holds for every
value inside the bounds of the harness.  sat = a model, handed back to the harness for
concretisation and replay against the real code.
"""
from __future__ import annotations

import itertools
import time

import z3


class Unsupported(BaseException):
    """The engine cannot follow the code (no model for an operation).  Inconclusive."""


class PathAbort(BaseException):
    """Path infeasible / deliberately cut (not an error)."""


class Violation(Exception):
    """Raised by a harness for a path-level violation (the path itself is feasible)."""

    def __init__(self, clause, info=None):
        super().__init__(clause)
        self.clause = clause
        self.info = info or {}


class Stats:
    def __init__(self):
        self.paths = 0
        self.aborted = 0
        self.unsupported = 0
        self.unsupported_msgs = {}
        self.unknown = 0
        self.queries = 0
        self.q_sat = 0
        self.q_unsat = 0
        self.solver_s = 0.0
        self.wall_s = 0.0
        self.remaining = 0
        self.capped = False
        self.clauses = {}  # name -> [reached, proved]
        self.cex = []  # list of dict(clause, witness, info)
        self.outcomes = {}
        self.samples = []

    def merge(self, o: "Stats"):
        for k in ("paths", "aborted", "unsupported", "unknown", "queries", "q_sat", "q_unsat", "solver_s", "remaining"):
            setattr(self, k, getattr(self, k) + getattr(o, k))
        self.capped = self.capped or o.capped
        for k, v in o.unsupported_msgs.items():
            self.unsupported_msgs[k] = self.unsupported_msgs.get(k, 0) + v
        for k, (a, b) in o.clauses.items():
            cur = self.clauses.setdefault(k, [0, 0])
            cur[0] += a
            cur[1] += b
        for k, v in o.outcomes.items():
            self.outcomes[k] = self.outcomes.get(k, 0) + v
        self.cex.extend(o.cex)
        if len(self.samples) < 12:
            self.samples.extend(o.samples[: 12 - len(self.samples)])

    def to_json(self):
        return dict(
            paths=self.paths, aborted=self.aborted, unsupported=self.unsupported,
            unsupported_msgs=self.unsupported_msgs, unknown=self.unknown, queries=self.queries,
            q_sat=self.q_sat, q_unsat=self.q_unsat, solver_s=round(self.solver_s, 3),
            remaining=self.remaining, capped=self.capped, clauses=self.clauses,
            outcomes=self.outcomes, cex=self.cex, samples=self.samples,
        )

    @staticmethod
    def from_json(d):
        s = Stats()
        for k, v in d.items():
            setattr(s, k, v)
        return s


class Ctx:
    """One path."""

    cur: "Ctx | None" = None

    def __init__(self, prefix=(), stats: Stats | None = None, hints=(), range_bound=2, timeout_ms=40000, rlimit=60_000_000):
        self.prefix = list(prefix)
        self.pos = 0
        self.solver = z3.Solver()
        self.solver.set("timeout", timeout_ms)  # wall-clock backstop only
        self.solver.set("rlimit", rlimit)  # deterministic effort cap per query (independent of machine load)
        self._timeout_ms, self._rlimit = timeout_ms, rlimit
        self._fresh_model = None
        self.decisions = []
        self.pending = []
        self.stats = stats if stats is not None else Stats()
        self.fresh = itertools.count()
        self.model = None  # a model of the current path condition, if known
        self.hash_hints = list(hints)
        self.range_bound = range_bound
        self.notes = {}  # free-form per-path data for harnesses (named symbolic inputs etc.)
        self.inputs = {}  # name -> z3 term, for witness extraction
        self.outcome = None
        self.crc_chains = []

    # ---- solver access -------------------------------------------------------------
    def _check(self, *assumptions):
        t0 = time.perf_counter()
        self._fresh_model = None
        r = self.solver.check(*assumptions)
        self.stats.solver_s += time.perf_counter() - t0
        self.stats.queries += 1
        if r == z3.sat:
            self.stats.q_sat += 1
        elif r == z3.unsat:
            self.stats.q_unsat += 1
        else:
            # second opinion from a fresh, non-incremental solver on the same assertions: the incremental core
            # occasionally gives up (rlimit) on queries the default core decides at once
            reason = self.solver.reason_unknown()
            s2 = z3.Solver()
            s2.set("timeout", max(self._timeout_ms, 120000))  # the incremental solver gets 40 s of wall time, the second opinion 120 s
            s2.set("rlimit", self._rlimit)
            s2.add(*self.solver.assertions())
            s2.add(*assumptions)
            t0 = time.perf_counter()
            r = s2.check()
            self.stats.solver_s += time.perf_counter() - t0
            self.stats.queries += 1
            self.stats.fresh_retries = getattr(self.stats, "fresh_retries", 0) + 1
            if r == z3.sat:
                self.stats.q_sat += 1
                self._fresh_model = s2.model()
            elif r == z3.unsat:
                self.stats.q_unsat += 1
            else:
                self.stats.unknown += 1
                raise Unsupported("solver returned unknown: " + reason)
        return r == z3.sat

    def get_checked_model(self):
        """model of the last satisfiable _check (from whichever solver decided it)"""
        m = self._fresh_model
        return m if m is not None else self.solver.model()

    def feasible(self, cond=None):
        """Is pc /\\ cond satisfiable?  Keeps the model when it is."""
        ok = self._check(cond) if cond is not None else self._check()
        if ok:
            self._last_model = self.get_checked_model()
        return ok

    def _eval_under_model(self, cond):
        if self.model is None:
            return None
        try:
            v = self.model.eval(cond, model_completion=True)
        except z3.Z3Exception:
            return None
        if z3.is_true(v):
            return True
        if z3.is_false(v):
            return False
        return None

    def add(self, cond):
        self.solver.add(cond)
        if self.model is not None and self._eval_under_model(cond) is not True:
            self.model = None

    def assume(self, cond):
        """Harness assumption (part of the stated bounds)."""
        if type(cond) is bool:
            if not cond:
                raise PathAbort("assumption false")
            return
        cond = getattr(cond, "e", cond)
        self.add(cond)

    # ---- branching -----------------------------------------------------------------
    def branch(self, cond) -> bool:
        cond = z3.simplify(cond)
        if z3.is_true(cond):
            return True
        if z3.is_false(cond):
            return False
        if self.pos < len(self.prefix):
            take = self.prefix[self.pos]
            if type(take) is not bool:
                raise Unsupported("non-deterministic replay (decision kind mismatch)")
        else:
            known = self._eval_under_model(cond)
            if known is None:
                t = self.feasible(cond)
                if t:
                    self.model = self._last_model
                    f = self.feasible(z3.Not(cond))
                else:
                    f = self.feasible(z3.Not(cond))
                    if f:
                        self.model = self._last_model
            elif known:
                t = True
                f = self.feasible(z3.Not(cond))
            else:
                f = True
                t = self.feasible(cond)
            if t and f:
                self.pending.append(list(self.decisions) + [False])
                take = True
                if known is False:
                    self.model = self._last_model  # model of the True side
            elif t:
                take = True
            elif f:
                take = False
            else:
                raise PathAbort("infeasible path")
        self.pos += 1
        self.decisions.append(take)
        self.add(cond if take else z3.Not(cond))
        return take

    def choose(self, n: int, label="") -> int:
        """Non-deterministic choice among n alternatives made by the harness (not solver)."""
        if n <= 1:
            return 0
        if self.pos < len(self.prefix):
            pick = self.prefix[self.pos]
            if not (isinstance(pick, tuple) and pick[0] == "ch"):
                raise Unsupported("non-deterministic replay (choose)")
            k = pick[1]
        else:
            k = 0
            for alt in range(n - 1, 0, -1):
                self.pending.append(list(self.decisions) + [("ch", alt)])
        self.pos += 1
        self.decisions.append(("ch", k))
        return k

    def recorded(self, compute):
        """A model-derived hint (any JSON-able value) that steers control flow: computed once at the
        frontier and replayed verbatim, so that re-execution along a prefix is deterministic."""
        if self.pos < len(self.prefix):
            pick = self.prefix[self.pos]
            if not (isinstance(pick, tuple) and pick[0] == "val"):
                raise Unsupported("non-deterministic replay (recorded hint)")
            v = pick[1]
        else:
            v = compute()
        self.pos += 1
        self.decisions.append(("val", v))
        return v

    def concretise(self, term, limit=64):
        """Fork over concrete values of a bit-vector term (used for __index__)."""
        e = z3.simplify(term)
        if z3.is_bv_value(e):
            return e.as_signed_long()
        for _ in range(limit):
            if self.pos < len(self.prefix):
                pick = self.prefix[self.pos]
                if not (isinstance(pick, tuple) and pick[0] in ("eq", "ne")):
                    raise Unsupported("non-deterministic replay (concretise)")
                self.pos += 1
                self.decisions.append(pick)
                if pick[0] == "eq":
                    self.add(term == pick[1])
                    return pick[1]
                self.add(term != pick[1])
                continue
            if self.model is None:
                if not self.feasible():
                    raise PathAbort("infeasible")
                self.model = self._last_model
            v = self.model.eval(term, model_completion=True).as_signed_long()
            if self.feasible(term != v):
                self.pending.append(list(self.decisions) + [("ne", v)])
            self.pos += 1
            self.decisions.append(("eq", v))
            self.add(term == v)
            return v
        raise Unsupported("too many concretisations of one value")

    def get_model(self):
        if self.model is None:
            if not self.feasible():
                raise PathAbort("infeasible")
            self.model = self._last_model
        return self.model

    # ---- fresh symbols ---------------------------------------------------------------
    def name(self, base):
        return f"{base}!{next(self.fresh)}"

    def count(self, key, n=1):
        self.stats.outcomes[key] = self.stats.outcomes.get(key, 0) + n


def ctx() -> Ctx:
    c = Ctx.cur
    if c is None:
        raise Unsupported("symbolic value used outside a path")
    return c


def as_term(x):
    """bool | SymBool | z3 Bool -> z3 Bool"""
    if type(x) is bool:
        return z3.BoolVal(x)
    e = getattr(x, "e", None)
    if e is not None:
        return e
    return x


PATH_START_HOOKS = []  # callables run before every path (models of process-level memo tables reset themselves here)


def explore(harness, *, max_paths=1000, deadline=None, hints=(), range_bound=2, stats: Stats | None = None,
            first_prefixes=None, keep_cex=3, on_path=None):
    """Explore harness.run(ctx) over all feasible paths (up to the caps).

    harness.run(c) -> list of (clause, term) ; may raise Violation for path-level failures.
    harness.witness(c, model, clause, info) -> JSON-able concrete input.
    """
    stats = stats if stats is not None else Stats()
    work = [list(p) for p in (first_prefixes or [[]])]
    t0 = time.perf_counter()
    explored = 0
    retried = set()
    while work:
        if explored >= max_paths or (deadline is not None and time.time() > deadline):
            stats.capped = True
            break
        prefix = work.pop()
        c = Ctx(prefix, stats=stats, hints=hints, range_bound=range_bound)
        Ctx.cur = c
        for hook in PATH_START_HOOKS:
            hook()
        try:
            try:
                obligations = harness.run(c)
            except Violation as v:
                obligations = [(v.clause, False)]
                c.notes["violation_info"] = v.info
            explored += 1
            stats.paths += 1
            if c.outcome:
                stats.outcomes[c.outcome] = stats.outcomes.get(c.outcome, 0) + 1
            for clause, term in obligations:
                cl = stats.clauses.setdefault(clause, [0, 0])
                cl[0] += 1
                t = z3.simplify(as_term(term))
                if z3.is_true(t):
                    cl[1] += 1
                    continue
                sat = c._check(z3.Not(t))
                if not sat:
                    cl[1] += 1
                    c.solver.add(t)  # proven under the path condition: a sound lemma for the next clauses
                    continue
                model = c.get_checked_model()
                c.notes["neg_clause"] = z3.Not(t)
                extra = getattr(harness, "extra_models", 0)
                if len([x for x in stats.cex if x["clause"] == clause]) < keep_cex + extra:
                    try:
                        w = harness.witness(c, model, clause, c.notes.get("violation_info", {}))
                    except Exception as e:  # witness extraction must never hide a counterexample
                        w = {"error": f"witness extraction failed: {type(e).__name__}: {e}"}
                    stats.cex.append({"clause": clause, "witness": w, "info": _jsonable(c.notes.get("violation_info", {}))})
                    # over-approximate encodings (R-mode): collect a few more, different models
                    if extra and hasattr(harness, "block"):
                        c.solver.push()
                        try:
                            c.solver.add(z3.Not(t))
                            for _ in range(extra):
                                blk = harness.block(c, model)
                                if blk is None:
                                    break
                                c.solver.add(blk)
                                if c.solver.check() != z3.sat:
                                    break
                                model = c.solver.model()
                                w = harness.witness(c, model, clause, {})
                                stats.cex.append({"clause": clause, "witness": w, "info": {"extra_model": True}})
                        finally:
                            c.solver.pop()
                else:
                    stats.cex.append({"clause": clause, "witness": None, "info": {}})
            if on_path is not None:
                on_path(c)
        except PathAbort:
            stats.aborted += 1
        except Unsupported as e:
            msg = str(e)[:160]
            key = tuple(map(repr, prefix))
            if msg.startswith("non-deterministic replay") and key not in retried:
                # re-execution along a recorded prefix diverged (a model-derived hint that was not recorded, or a
                # transient solver give-up): try the prefix once more before giving the path up
                retried.add(key)
                work.append(prefix)
                Ctx.cur = None
                continue
            stats.unsupported += 1
            stats.unsupported_msgs[msg] = stats.unsupported_msgs.get(msg, 0) + 1
        except z3.Z3Exception as e:
            stats.unsupported += 1
            msg = "z3:" + str(e)[:150]
            stats.unsupported_msgs[msg] = stats.unsupported_msgs.get(msg, 0) + 1
        finally:
            Ctx.cur = None
        work.extend(c.pending)
    stats.remaining += len(work)
    stats.wall_s += time.perf_counter() - t0
    return stats


def _jsonable(x):
    try:
        import json

        json.dumps(x)
        return x
    except Exception:
        return repr(x)
