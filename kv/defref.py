"""kv.defref - an independent reading of an upstream-format JSON message definition.

Given the definition (a plain dict as json.loads returns it) and a version it answers,
WITHOUT using codegen.*:
  * which structures are visible and which fields each has, in order, under which
    attribute name (naming convention), with which wire type, nullability, tag and default;
  * which class variables the generated classes must carry (entity type, version,
    flexibility, API key, header schema);
  * the bytes an instance encodes to (leaf encoders shared with kv.kref, structure taken
    from the definition - not from the generated class).

kio conventions that are part of this reading because the project documents them and the
shipped schema shows them (they are translation rules, not wire rules):
  - a field called ErrorCode/PartitionErrorCode is an ErrorCode; the listed ...Ms names are
    durations/timestamps and lose the "Ms" suffix;
  - fixed-width numbers, bool and error codes are never optional; uuid is always `UUID | None`
    (null = zero uuid);
  - a timestamp whose default is "-1" is optional with default None;
  - a tagged, ignorable field without a default defaults to zero / False / ErrorCode.none
    when it is a number / bool / error code, and otherwise is optional with default None;
  - a primitive array always has the default ();  a tagged struct array has the default ();
  - a tagged struct whose fields all carry defaults defaults to the struct of defaults.
"""
from __future__ import annotations

import builtins
import dataclasses
import datetime
import math
import uuid

from . import kref
from .core import Unsupported

INF = math.inf
MISSING = dataclasses.MISSING

TIMEDELTA_NAMES = frozenset({"timeoutMs", "TimeoutMs", "ThrottleTimeMs", "MaxWaitMs", "SessionLifetimeMs", "TransactionTimeoutMs",
                             "MaxLifetimeMs", "SessionTimeoutMs", "RebalanceTimeoutMs", "ExpiryTimePeriodMs", "RenewPeriodMs",
                             "RetentionTimeMs", "HeartbeatIntervalMs", "PushIntervalMs"})
DATETIME_NAMES = frozenset({"IssueTimestampMs", "ExpiryTimestampMs", "MaxTimestampMs", "TransactionStartTimeMs", "LogAppendTimeMs"})
ERROR_NAMES = frozenset({"ErrorCode", "PartitionErrorCode"})
NUMBERS = frozenset({"int8", "int16", "int32", "int64", "uint16", "uint32", "uint64", "float64"})
INTEGERS = NUMBERS - {"float64"}
PRIMITIVES = NUMBERS | {"bool", "string", "bytes", "uuid", "records"}


# ---- version ranges ------------------------------------------------------------------------
def rng(s):
    """'N' | 'N-M' | 'N+' | 'none' | None -> (lo, hi) | None"""
    if s is None:
        return None
    if s == "none":
        return (1, 0)
    if s.endswith("+"):
        return (int(s[:-1]), INF)
    if "-" in s:
        a, b = s.split("-", 1)
        return (int(a), int(b))
    return (int(s), int(s))


def within(r, v):
    return r is not None and r[0] <= v <= r[1]


def versions_of(defn):
    lo, hi = rng(defn["validVersions"])
    return list(range(lo, int(hi) + 1))


# ---- naming convention -----------------------------------------------------------------------
def snake(name):
    out = ""
    n = len(name)
    for i, ch in enumerate(name):
        if i >= 1 and ch.isupper():
            p = name[i - 1]
            nxt_low = i + 1 < n and name[i + 1].islower()
            if p.islower() or ((p.isupper() or p.isdigit()) and nxt_low):
                out += "_"
        out += ch.lower()
    return out + "_" if out in dir(builtins) else out


def api_package(name):
    s = snake(name)
    for suf in ("_response", "_request"):
        if s.endswith(suf):
            return s[: -len(suf)]
    return s


def cap_first(s):
    return s[0].upper() + s[1:]


# ---- fields ------------------------------------------------------------------------------------
@dataclasses.dataclass
class Spec:
    json_name: str
    attr: str
    kind: str  # prim | prim_array | struct | struct_array
    kt: str | None  # wire type of the value / of the array items (after the special names)
    struct: str | None
    sub: list | None  # the struct's field dicts
    nullable: bool
    tag: int | None
    ignorable: bool
    default_raw: object  # the definition's "default" (None = absent)
    entity_type: str | None
    inline: bool = True  # struct declared in place (False: reference to a common struct)

    def is_array(self):
        return self.kind.endswith("_array")


def read_field(f, version, commons):
    name = f["name"]
    tp = f["type"]
    versions = f.get("versions", f.get("taggedVersions"))
    if not within(rng(versions), version):
        return None
    tag = f["tag"] if within(rng(f.get("taggedVersions")), version) else None
    declared_nullable = within(rng(f.get("nullableVersions")), version)
    default = f.get("default")
    ignorable = bool(f.get("ignorable", False))
    is_array = tp.startswith("[]")
    inner = tp[2:] if is_array else tp
    if inner in PRIMITIVES:
        kt = inner
        if not is_array:
            if name in ERROR_NAMES:
                kt = "error_code"
            if name in TIMEDELTA_NAMES:
                kt = {"int32": "timedelta_i32", "int64": "timedelta_i64"}[inner]
                name = name[:-2]
            elif name in DATETIME_NAMES:
                kt = "datetime_i64"
                name = name[:-2]
        if is_array:
            # item-level: uuid items are `UUID | None`; the array itself is nullable as declared
            return Spec(f["name"], snake(name), "prim_array", kt, None, None, declared_nullable, tag, ignorable, default, f.get("entityType"))
        if kt in NUMBERS or kt in ("bool", "error_code"):
            nullable = False  # no null representation on the wire
        elif kt == "uuid":
            nullable = True  # the null uuid is the all-zero uuid: kio accepts None for every uuid field
        else:
            nullable = declared_nullable or (tag is not None and ignorable and default is None) or (kt == "datetime_i64" and default == "-1")
        return Spec(f["name"], snake(name), "prim", kt, None, None, nullable, tag, ignorable, default, f.get("entityType"))
    sub = f.get("fields")
    inline = sub is not None
    if sub is None:
        sub = commons[inner]["fields"]
    return Spec(f["name"], snake(name), "struct_array" if is_array else "struct", None, inner, sub, declared_nullable, tag, ignorable, default, None, inline)


def commons_of(defn):
    return {c["name"]: c for c in defn.get("commonStructs", ())}


def read_fields(fields, version, commons):
    out = []
    for f in fields:
        s = read_field(f, version, commons)
        if s is not None:
            out.append(s)
    return out


def structures(defn, version):
    """-> {struct name: [Spec]} for every structure visible in `version`; the message itself first"""
    commons = commons_of(defn)
    out = {}

    def walk(name, fields):
        if name in out:
            return
        specs = read_fields(fields, version, commons)
        out[name] = specs
        for s in specs:
            if s.struct is not None:
                walk(s.struct, s.sub)

    walk(defn["name"], defn["fields"])
    return out


def is_flexible(defn, version):
    return within(rng(defn["flexibleVersions"]), version)


def header_module(defn, version):
    """module path of the header schema class a request/response of this version travels with"""
    t = defn["type"]
    flex = is_flexible(defn, version)
    if t == "request":
        if defn["apiKey"] == 7 and version == 0:
            return "kio.schema.request_header.v0.header", "RequestHeader"
        return f"kio.schema.request_header.v{2 if flex else 1}.header", "RequestHeader"
    if t == "response":
        if defn["apiKey"] == 18:
            return "kio.schema.response_header.v0.header", "ResponseHeader"
        return f"kio.schema.response_header.v{1 if flex else 0}.header", "ResponseHeader"
    return None


# ---- defaults -------------------------------------------------------------------------------
ZERO_MS = datetime.timedelta(0)


def all_defaults(sub, version, commons):
    """every field of the struct visible in this version is a scalar with a declared default"""
    vis = [g for g in sub if within(rng(g.get("versions", g.get("taggedVersions"))), version)]
    return all(("fields" not in g) and g["type"] in PRIMITIVES and g.get("default") is not None for g in vis)


def parse_default(spec):
    """the Python value the definition's default denotes"""
    d = spec.default_raw
    kt = spec.kt
    if d == "null":
        return None
    if kt == "string":
        return d
    if kt in INTEGERS:
        return int(d, 0) if isinstance(d, str) else d
    if kt == "bool":
        if isinstance(d, str):
            return {"true": True, "false": False}[d.lower()]
        return bool(d)
    if kt == "float64":
        return float(d)
    if kt == "error_code":
        from kio.schema.errors import ErrorCode

        return ErrorCode(int(d))
    if kt in ("timedelta_i32", "timedelta_i64"):
        return datetime.timedelta(milliseconds=int(d))
    if kt == "datetime_i64" and d == "-1":
        return None
    raise Unsupported(f"definition default {d!r} for {kt}")


def expected_default(spec, version, commons, classes):
    """-> the default the generated dataclass field must carry (MISSING = required field)"""
    if spec.kind == "prim_array":
        return ()
    if spec.kind == "struct_array":
        return () if spec.tag is not None else MISSING
    if spec.default_raw is not None:
        if spec.kind == "struct":
            if spec.default_raw == "null":
                return None
            raise Unsupported("struct default other than null")
        return parse_default(spec)
    if spec.kind == "struct":
        if spec.tag is not None and spec.inline and all_defaults(spec.sub, version, commons):
            return classes[spec.struct]()
        if spec.tag is not None and spec.ignorable:
            return None
        return MISSING
    if spec.tag is not None and spec.ignorable:
        if spec.kt in INTEGERS:
            return 0
        if spec.kt == "float64":
            return 0.0
        if spec.kt == "bool":
            return False
        if spec.kt == "error_code":
            from kio.schema.errors import ErrorCode

            return ErrorCode.none
        return None
    return MISSING


def zero_value(spec, version, commons, classes):
    """KIP-482: the value an absent tagged field stands for when the definition gives no default"""
    if spec.is_array():
        return ()
    if spec.kind == "struct":
        cls = classes[spec.struct]
        specs = read_fields(spec.sub, version, commons)
        return cls(**{s.attr: elision_value(s, version, commons, classes) for s in specs})
    kt = spec.kt
    if kt in INTEGERS:
        return 0
    if kt == "error_code":
        from kio.schema.errors import ErrorCode

        return ErrorCode.none
    if kt == "uuid":
        return uuid.UUID(int=0)
    return kref.ZERO[kt]


def elision_value(spec, version, commons, classes):
    d = expected_default(spec, version, commons, classes)
    if d is MISSING:
        return zero_value(spec, version, commons, classes)
    return d


# ---- encoding -------------------------------------------------------------------------------
class Encoder:
    def __init__(self, defn, version, classes):
        self.defn = defn
        self.version = version
        self.flexible = is_flexible(defn, version)
        self.commons = commons_of(defn)
        self.classes = classes
        self.structs = structures(defn, version)

    def encode(self, x, struct=None):
        specs = self.structs[struct or self.defn["name"]]
        out = []
        tagged = []
        for s in specs:
            v = getattr(x, s.attr)
            if s.tag is not None:
                tagged.append((s.tag, s, v))
            else:
                out = out + self.field(s, v, False)
        if not self.flexible:
            if tagged:
                raise Unsupported("definition: tagged field in a non-flexible version")
            return out
        present = []
        for tag, s, v in sorted(tagged, key=lambda t: t[0]):
            d = elision_value(s, self.version, self.commons, self.classes)
            if kref._t(v == d):
                continue
            body = self.field(s, v, True)
            n = kref.SymBytes(body).sym_len()
            present.append(kref.uvarint(tag) + kref.uvarint(n) + body)
        out = out + kref.uvarint(len(present))
        for items in present:
            out = out + items
        return out

    def field(self, s, v, tagged):
        fl = self.flexible
        if s.kind == "prim":
            return kref.enc_prim(s.kt, v, fl)
        if s.kind == "prim_array":
            return kref.enc_array(v, lambda it: kref.enc_prim(s.kt, it, fl), fl)
        if s.kind == "struct_array":
            return kref.enc_array(v, lambda it: self.encode(it, s.struct), fl)
        if s.nullable and not tagged:
            return [0xFF] if v is None else [1] + self.encode(v, s.struct)
        return self.encode(v, s.struct)
