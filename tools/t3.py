import sys, json
from kv import install; install.install()
from kv.props import c10
cid=sys.argv[1]; mode=sys.argv[2]; N=int(sys.argv[3]) if len(sys.argv)>3 else 5
o=c10.tier_opts("quick"); o["N"]=N
r=c10.task_class((cid,o,mode)); st=r["stats"]; cex=st.pop("cex")
print(r["wall"], {k: st[k] for k in ("paths","aborted","unsupported","unsupported_msgs","queries","solver_s","clauses","outcomes","capped")})
for c in cex[:3]: print(json.dumps(c)[:400])
