"""kv.bufmodels - models of mutable byte buffers (bytearray, memoryview) so that code which
assembles bytes in a reusable scratch buffer is followed symbolically AND aliasing between
what was handed to a sink and what is later overwritten stays observable."""
from __future__ import annotations

import builtins

from . import sym as S
from .core import Unsupported
from .sym import Blob, SymBytes, SymInt

_len = builtins.len
_bytearray = builtins.bytearray
_memoryview = builtins.memoryview


def _item_ok(v):
    t = type(v)
    if t is SymInt:
        lo = v >= 0
        hi = v <= 255
        if not ((lo if type(lo) is bool else bool(lo)) and (hi if type(hi) is bool else bool(hi))):
            raise ValueError("byte must be in range(0, 256)")
        return v
    if t is S.SymBool:
        return SymInt(*S.lift(v))
    v = int(v)
    if not 0 <= v <= 255:
        raise ValueError("byte must be in range(0, 256)")
    return v


class ByteArrayModel:
    """list-backed bytearray whose cells may hold symbolic bytes"""
    __class__ = property(lambda self: _bytearray)  # C-level isinstance() / `match` class patterns see the represented type

    def __init__(self, source=0, *a):
        if type(source) is int:
            self.cells = [0] * source
        elif type(source) is SymInt:
            self.cells = [0] * source.__index__()
        elif type(source) in (ByteArrayModel, MemViewModel):
            self.cells = list(source.items())
        elif type(source) is SymBytes:
            if source.has_blob():
                self.cells = list(source.expanded())
            else:
                self.cells = list(source.items)
        else:
            self.cells = list(_bytearray(source, *a))

    def items(self):
        return list(self.cells)

    def __sym_len__(self):
        return _len(self.cells)

    def __len__(self):
        return _len(self.cells)

    def __getitem__(self, k):
        if type(k) is slice:
            return ByteArrayModel(SymBytes(self.cells[k]))
        if type(k) is SymInt:
            k = k.__index__()
        return self.cells[k]

    def __setitem__(self, k, v):
        if type(k) is slice:
            vals = list(S.SymBytes.of(v).items) if type(v) in (bytes, _bytearray, SymBytes) else list(v.items()) if hasattr(v, "items") else [_item_ok(x) for x in v]
            self.cells[k] = vals
            return
        if type(k) is SymInt:
            k = k.__index__()
        self.cells[k] = _item_ok(v)

    def __iter__(self):
        return iter(list(self.cells))

    def append(self, v):
        self.cells.append(_item_ok(v))

    def extend(self, vs):
        self.cells.extend(list(S.SymBytes.of(vs).items) if type(vs) in (bytes, _bytearray, SymBytes) else [_item_ok(x) for x in vs])

    def __iadd__(self, o):
        self.extend(o)
        return self

    def __add__(self, o):
        r = ByteArrayModel(SymBytes(self.cells))
        r.extend(o)
        return r

    def clear(self):
        self.cells.clear()

    def __bytes__(self):
        if all(type(c) is int for c in self.cells):
            return bytes(self.cells)
        raise Unsupported("bytes() of a bytearray holding symbolic bytes reached C level")

    def __buffer__(self, flags):
        # PEP 688: lets a real C-level consumer (io.BytesIO.write, bytes.join) read concrete content
        return _memoryview(self.__bytes__())

    def __eq__(self, o):
        return SymBytes(self.cells) == (SymBytes(o.items()) if hasattr(o, "items") and not isinstance(o, dict) else o)

    def __hash__(self):
        raise TypeError("unhashable type: 'bytearray'")

    def __repr__(self):
        return "<ByteArrayModel>"


class MemViewModel:
    """a window onto a ByteArrayModel (or immutable bytes): shares storage with its base"""
    __class__ = property(lambda self: _memoryview)  # C-level isinstance() / `match` class patterns see the represented type

    def __init__(self, base, start=0, stop=None):
        if type(base) is MemViewModel:
            start, stop, base = base.start + start, (base.start + stop if stop is not None else base.stop), base.base
        elif type(base) in (bytes, SymBytes):
            base = ByteArrayModel(base if type(base) is SymBytes else SymBytes.of(base))
            base.readonly = True
        elif type(base) is _bytearray:
            raise Unsupported("memoryview of a real bytearray mixed with symbolic values")
        self.base = base
        self.start = start
        self.stop = _len(base.cells) if stop is None else stop

    def items(self):
        return list(self.base.cells[self.start:self.stop])

    def __sym_len__(self):
        return self.stop - self.start

    def __len__(self):
        return self.stop - self.start

    @property
    def nbytes(self):
        return self.stop - self.start

    def __getitem__(self, k):
        n = self.stop - self.start
        if type(k) is slice:
            a, b, step = k.indices(n)
            if step != 1:
                raise Unsupported("strided memoryview")
            return MemViewModel(self.base, self.start + a, self.start + max(a, b))
        if type(k) is SymInt:
            k = k.__index__()
        if k < 0:
            k += n
        if not 0 <= k < n:
            raise IndexError("index out of bounds on dimension 1")
        return self.base.cells[self.start + k]

    def __setitem__(self, k, v):
        if getattr(self.base, "readonly", False):
            raise TypeError("cannot modify read-only memory")
        if type(k) is slice:
            a, b, _ = k.indices(self.stop - self.start)
            self.base[self.start + a:self.start + b] = v
            return
        self.base[self.start + k] = v

    def tobytes(self):
        its = self.items()
        return bytes(its) if all(type(c) is int for c in its) else SymBytes(its)

    def __bytes__(self):
        its = self.items()
        if all(type(c) is int for c in its):
            return bytes(its)
        raise Unsupported("bytes() of a memoryview holding symbolic bytes reached C level")

    def __iter__(self):
        return iter(self.items())

    def __buffer__(self, flags):
        return _memoryview(self.__bytes__())

    def release(self):
        pass

    def __enter__(self):
        return self

    def __exit__(self, *a):
        return False

    def __eq__(self, o):
        return SymBytes(self.items()) == (SymBytes(o.items()) if hasattr(o, "items") and not isinstance(o, dict) else o)

    def __hash__(self):
        raise Unsupported("hash of a memoryview model")

    def __repr__(self):
        return "<MemViewModel>"


def sym_bytearray(*a):
    return ByteArrayModel(*a) if a else ByteArrayModel(0)


def sym_memoryview(obj):
    if type(obj) in (ByteArrayModel, MemViewModel, SymBytes):
        return MemViewModel(obj)
    return _memoryview(obj)


S._PROXY_BASE.update({ByteArrayModel: _bytearray, MemViewModel: _memoryview})
S._MODEL_TO_REAL[id(sym_bytearray)] = _bytearray
S._MODEL_TO_REAL[id(sym_memoryview)] = _memoryview


def buffer_items(x):
    """items of a written buffer-like object (model or real) without copying semantics lost"""
    if type(x) in (ByteArrayModel, MemViewModel):
        return x.items()
    return None
