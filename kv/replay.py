"""kv.replay - concrete replay of counterexamples against the REAL kio (no models are
installed in this process).  `python -m kv.replay --batch file.json` prints a JSON list of
{reproduced, sig, detail}; `python -m kv.replay file.json` replays one stored violation."""
from __future__ import annotations

import dataclasses
import io
import json
import sys
import traceback


def _load_instance(w):
    from . import shapes

    return shapes.from_jsonable(w["instance"])


def _first_diff(a, b, path="x"):
    """-> (path, kafka_type, repr a, repr b) of the first differing leaf"""
    if dataclasses.is_dataclass(a) and type(a) is type(b):
        for f in dataclasses.fields(a):
            va, vb = getattr(a, f.name), getattr(b, f.name)
            if va != vb:
                d = _first_diff(va, vb, f"{path}.{f.name}")
                if d[1] is None:
                    d = (d[0], f.metadata.get("kafka_type"), d[2], d[3])
                return d
    if isinstance(a, tuple) and isinstance(b, tuple) and len(a) == len(b):
        for i, (va, vb) in enumerate(zip(a, b)):
            if va != vb:
                return _first_diff(va, vb, f"{path}[{i}]")
    return (path, None, repr(a)[:80], repr(b)[:80])


def _exc_sig(e):
    tb = traceback.extract_tb(e.__traceback__)
    site = None
    for fr in reversed(tb):
        if "/kio/" in fr.filename:
            site = f"{fr.filename.split('/kio/')[-1]}:{fr.name}"
            break
    return {"exception": type(e).__name__, "site": site}


def _encode(cls, inst):
    from kio.serial import entity_writer

    buf = io.BytesIO()
    entity_writer(cls)(buf, inst)
    return buf.getvalue()


def replay_C01(w, clause):
    from kio.serial import entity_reader
    from kio.serial.errors import OutOfBoundValue

    from . import shapes

    inst = _load_instance(w)
    cls = type(inst)
    try:
        data = _encode(cls, inst)
    except OutOfBoundValue as e:
        return {"reproduced": clause == "refusal_only_when_unrepresentable", "sig": {"kind": "refused", **_exc_sig(e)}, "detail": f"writer refused: {e}"}
    except Exception as e:
        return {"reproduced": True, "sig": {"kind": "writer_raises", **_exc_sig(e)}, "detail": f"writer raised {type(e).__name__}: {e}"}
    tail = bytes(w.get("tail", [0, 0]))
    buf = io.BytesIO(data + tail)
    try:
        out = entity_reader(cls)(buf)
    except Exception as e:
        return {"reproduced": True, "sig": {"kind": "reader_raises", **_exc_sig(e)}, "detail": f"reader raised {type(e).__name__}: {e} on its own writer's output {data[:64].hex()}"}
    if out != inst:
        p, kt, ra, rb = _first_diff(inst, out)
        return {"reproduced": True, "sig": {"kind": "roundtrip_mismatch", "kafka_type": kt},
                "detail": f"{shapes.class_id(cls)} {p}: wrote {ra}, read back {rb}"}
    if buf.tell() != len(data):
        return {"reproduced": True, "sig": {"kind": "consumption"}, "detail": f"consumed {buf.tell()} of {len(data)} encoded bytes"}
    return {"reproduced": False, "detail": "round trip equal and exact on the real code"}


def replay_C02(w, clause):
    from kio.serial.errors import OutOfBoundValue

    from . import kref, shapes

    inst = _load_instance(w)
    cls = type(inst)
    lim = []
    ref = bytes(kref.encode(inst, limits=lim))
    try:
        data = _encode(cls, inst)
    except OutOfBoundValue as e:
        return {"reproduced": not lim, "sig": {"kind": "refused"}, "detail": f"writer refused: {e}"}
    except Exception as e:
        return {"reproduced": True, "sig": {"kind": "writer_raises", **_exc_sig(e)}, "detail": f"writer raised {type(e).__name__}: {e}"}
    if lim:
        return {"reproduced": True, "sig": {"kind": "wrote_unrepresentable"}, "detail": "writer emitted bytes for a length its prefix cannot hold"}
    if data != ref:
        k = next((i for i in range(min(len(data), len(ref))) if data[i] != ref[i]), min(len(data), len(ref)))
        return {"reproduced": True, "sig": {"kind": "bytes_differ"},
                "detail": f"{shapes.class_id(cls)}: first difference at byte {k}: kio {data[max(0,k-4):k+8].hex()} reference {ref[max(0,k-4):k+8].hex()} (lengths {len(data)}/{len(ref)})"}
    return {"reproduced": False, "detail": "bytes equal the reference on the real code"}


def replay_C06(w, clause):
    from kio.serial import entity_reader
    from kio.serial.errors import BufferUnderflow, OutOfBoundValue

    inst = _load_instance(w)
    cls = type(inst)
    try:
        data = _encode(cls, inst)
    except OutOfBoundValue as e:
        return {"reproduced": False, "detail": "writer refused"}
    k = int(w["cut"])
    if not (0 <= k < len(data)):
        return {"reproduced": False, "detail": f"cut {k} not a strict prefix of {len(data)} bytes"}
    try:
        out = entity_reader(cls)(io.BytesIO(data[:k]))
    except BufferUnderflow:
        return {"reproduced": False, "detail": "BufferUnderflow as required"}
    except Exception as e:
        return {"reproduced": True, "sig": {"kind": "wrong_exception", **_exc_sig(e)}, "detail": f"prefix of {k}/{len(data)} bytes raised {type(e).__name__}: {e}"}
    return {"reproduced": True, "sig": {"kind": "returned_value"}, "detail": f"prefix of {k}/{len(data)} bytes decoded to {out!r}"[:300]}


def dispatch(rec):
    prop = rec["prop"]
    if isinstance(rec.get("witness"), dict) and "lemma" in rec["witness"]:
        from . import lemma

        try:
            return lemma.replay_lemma(rec["witness"], rec.get("clause"))
        except (KeyboardInterrupt, SystemExit):
            raise
        except BaseException as e:
            return {"reproduced": None, "error": f"{type(e).__name__}: {e}\n{traceback.format_exc()[-1500:]}"}
    fn = globals().get("replay_" + prop)
    if fn is None and isinstance(rec.get("witness"), dict) and "facts" in rec["witness"]:
        # finite fact rules: re-extract the facts from the real classes in this clean process
        import importlib

        try:
            mod = importlib.import_module(f"kv.props.{prop.lower()}")
            q = mod.rules()[0]
            for name, ok, detail in q.results:
                if name == rec["witness"]["facts"]:
                    return {"reproduced": ok is False, "sig": {"kind": "facts", "rule": name}, "detail": f"{name}: {detail}"}
            return {"reproduced": None, "error": "unknown facts rule"}
        except Exception as e:
            return {"reproduced": None, "error": f"{type(e).__name__}: {e}\n{traceback.format_exc()[-1500:]}"}
    if fn is None:
        import importlib

        for modname in ("kv.replay2",):
            try:
                mod = importlib.import_module(modname)
            except ImportError:
                continue
            fn = getattr(mod, "replay_" + prop, None)
            if fn:
                break
    if fn is None:
        return {"reproduced": None, "error": f"no replay function for {prop}"}
    try:
        return fn(rec["witness"], rec.get("clause"))
    except (KeyboardInterrupt, SystemExit):
        raise
    except BaseException as e:  # includes the engine's control-flow exceptions raised by shared lemma code
        return {"reproduced": None, "error": f"{type(e).__name__}: {e}\n{traceback.format_exc()[-1500:]}"}


def main(argv):
    if len(argv) >= 2 and argv[0] == "--batch":
        with open(argv[1]) as fh:
            recs = json.load(fh)
        print(json.dumps([dispatch(r) for r in recs]))
        return 0
    with open(argv[0]) as fh:
        rec = json.load(fh)
    r = dispatch(rec)
    print(json.dumps(r, indent=1))
    return 1 if r.get("reproduced") else 0




def replay_C10(w, clause):
    from kio.serial import entity_reader, entity_writer
    from kio.serial.errors import SerialError

    from . import shapes

    cls = shapes.class_by_id(w["class"])
    if w["kind"] == "arbitrary":
        data = bytes(w["bytes"])
    else:
        inst = shapes.from_jsonable(w["instance"])
        data = bytearray(_encode(cls, inst))
        if w["kind"] == "insert":
            data[w["offset"]:w["offset"]] = bytes([w["value"]])
        elif w["kind"] == "delete":
            del data[w["offset"]]
        else:
            data[w["offset"]] = w["value"]
        data = bytes(data)
    buf = io.BytesIO(data)
    try:
        out = entity_reader(cls)(buf)
    except (SerialError, ValueError, OverflowError) as e:
        return {"reproduced": False, "detail": f"allowed outcome {type(e).__name__}"}
    except Exception as e:
        return {"reproduced": True, "sig": {"kind": "internal_error", **_exc_sig(e)},
                "detail": f"{w['class']} on bytes {data[:48].hex()} raised {type(e).__name__}: {e}"}
    if buf.tell() > len(data):
        return {"reproduced": True, "sig": {"kind": "consumed_more_than_given"}, "detail": f"{w['class']}: decoding {len(data)} bytes left the source position at {buf.tell()}"}
    if clause == "array_item_consumes_at_least_one_byte":
        if buf.tell() == 0:
            return {"reproduced": True, "sig": {"kind": "zero_width_array_item"}, "detail": f"{w['class']} decodes from zero bytes and is used as an array item"}
        return {"reproduced": False, "detail": "consumed >= 1 byte"}
    try:
        entity_writer(cls)(io.BytesIO(), out)
    except Exception as e:
        return {"reproduced": True, "sig": {"kind": "returned_entity_not_encodable", **_exc_sig(e)},
                "detail": f"{w['class']} decoded {data[:48].hex()} to {out!r} which the writer rejects with {type(e).__name__}: {e}"[:500]}
    return {"reproduced": False, "detail": "decoded and re-encoded"}


def _has_raw(x):
    import dataclasses as _dc

    if type(x).__name__ == "RawMillis":
        return True
    if _dc.is_dataclass(x) and not isinstance(x, type):
        return any(_has_raw(getattr(x, f.name)) for f in _dc.fields(x))
    if isinstance(x, tuple):
        return any(_has_raw(v) for v in x)
    return False


def replay_C03(w, clause):
    from kio.serial import entity_reader

    from . import shapes

    if not w.get("bytes") and w.get("bytes") != "":
        return {"reproduced": None, "error": "witness too large to replay"}
    exp = _load_instance(w)
    cls = type(exp)
    data = bytes.fromhex(w["bytes"])
    ntail = len(w.get("tail", []))
    buf = io.BytesIO(data)
    try:
        out = entity_reader(cls)(buf)
    except Exception as e:
        sig = {"kind": "reader_raises", **_exc_sig(e)}
        if _has_raw(exp):
            sig["cause"] = "time_value_beyond_python_range"
        return {"reproduced": True, "sig": sig,
                "detail": f"{shapes.class_id(cls)}: conforming encoding {data[:64].hex()} raised {type(e).__name__}: {e}"}
    if out != exp:
        p, kt, ra, rb = _first_diff(exp, out)
        return {"reproduced": True, "sig": {"kind": "wrong_value", "kafka_type": kt},
                "detail": f"{shapes.class_id(cls)} {p}: on the wire {ra}, decoded {rb} (bytes {data[:64].hex()})"}
    if buf.tell() != len(data) - ntail:
        return {"reproduced": True, "sig": {"kind": "consumption"}, "detail": f"consumed {buf.tell()} of {len(data) - ntail} bytes"}
    return {"reproduced": False, "detail": "decoded to the wire values, exact consumption"}


def replay_C05(w, clause):
    from kio.serial import entity_reader, entity_writer
    from kio.serial.errors import DecodeError, OutOfBoundValue

    from . import shapes

    if not w.get("bytes") and w.get("bytes") != "":
        return {"reproduced": None, "error": "witness too large to replay"}
    cls = shapes.class_by_id(w["class"])
    data = bytes.fromhex(w["bytes"])
    try:
        out = entity_reader(cls)(io.BytesIO(data))
    except (DecodeError, OutOfBoundValue, ValueError, OverflowError) as e:
        return {"reproduced": False, "detail": f"decoder does not accept this input ({type(e).__name__})"}
    except Exception as e:
        return {"reproduced": True, "sig": {"kind": "reader_internal_error", **_exc_sig(e)}, "detail": f"{type(e).__name__}: {e}"}
    buf = io.BytesIO()
    try:
        entity_writer(cls)(buf, out)
    except Exception as e:
        return {"reproduced": True, "sig": {"kind": "decoded_value_rejected_by_encoder", **_exc_sig(e)},
                "detail": f"{w['class']}: decode({data[:64].hex()}) = {out!r} is rejected by the encoder: {type(e).__name__}: {e}"[:500]}
    re = buf.getvalue()
    if re != data:
        k = next((i for i in range(min(len(data), len(re))) if data[i] != re[i]), min(len(data), len(re)))
        return {"reproduced": True, "sig": {"kind": "reencoding_differs"},
                "detail": f"{w['class']}: byte {k}: input {data[max(0,k-4):k+8].hex()} re-encoded {re[max(0,k-4):k+8].hex()}"}
    out2 = entity_reader(cls)(io.BytesIO(re))
    if out2 != out:
        return {"reproduced": True, "sig": {"kind": "not_idempotent"}, "detail": "decode(encode(decode(b))) != decode(b)"}
    return {"reproduced": False, "detail": "re-encoding reproduces the bytes"}


def replay_C07(w, clause):
    from kio.serial import entity_reader, entity_writer

    from . import shapes

    cls = shapes.class_by_id(w["class"])
    hcls = cls.__header_schema__
    msgs = [(shapes.from_jsonable(h), shapes.from_jsonable(x)) for h, x in w["msgs"]]
    if w.get("foreign"):
        if w.get("bytes") is None:
            return {"reproduced": None, "error": "witness too large to replay"}
        data = bytes.fromhex(w["bytes"])
        rd = io.BytesIO(data)
        rd.read(w["lead_len"])
        try:
            for h, x in msgs:
                h2 = entity_reader(hcls)(rd)
                x2 = entity_reader(cls)(rd)
                if h2 != h or x2 != x:
                    return {"reproduced": True, "sig": {"kind": "peer_stream_misaligned"}, "detail": f"{w['class']}: a message written by a conforming peer (with unknown tagged fields) decodes to different values: the stream lost alignment"}
        except Exception as e:
            return {"reproduced": True, "sig": {"kind": "peer_stream_misaligned", **_exc_sig(e)}, "detail": f"{w['class']}: {type(e).__name__}: {e} while reading back-to-back messages written by a conforming peer"}
        if rd.read() != bytes.fromhex(w["trail"]):
            return {"reproduced": True, "sig": {"kind": "peer_stream_misaligned", "where": "trail"}, "detail": f"{w['class']}: bytes after the last peer-written message are not exactly the trailing bytes"}
        return {"reproduced": False, "detail": "peer-written stream decodes in order"}
    lead, trail = bytes.fromhex(w["lead"]), bytes.fromhex(w["trail"])

    class WriteOnly:
        def __init__(self, ret):
            self.data = bytearray()
            self.ret = ret
            self.used = []

        def write(self, b):
            self.data += bytes(b)
            return len(b) if self.ret else None

        def __getattr__(self, name):
            self.__dict__.setdefault("used", []).append(name)
            raise AttributeError(name)

    class ReadOnly:
        def __init__(self, data):
            self._b = io.BytesIO(data)
            self.used = []

        def read(self, n=-1):
            return self._b.read(n)

        def __getattr__(self, name):
            self.__dict__.setdefault("used", []).append(name)
            raise AttributeError(name)

    outs = []
    for ret in (True, False):
        s = WriteOnly(ret)
        s.write(lead)
        try:
            for h, x in msgs:
                entity_writer(hcls)(s, h)
                entity_writer(cls)(s, x)
        except Exception as e:
            return {"reproduced": True, "sig": {"kind": "writer_raises_on_write_only_sink", **_exc_sig(e)},
                    "detail": f"{w['class']}: {type(e).__name__}: {e}; attributes touched: {s.used}"}
        s.write(trail)
        if s.used:
            return {"reproduced": True, "sig": {"kind": "sink_protocol", "attrs": sorted(set(s.used))}, "detail": f"encoder touched {s.used} on the sink"}
        outs.append(bytes(s.data))
    if outs[0] != outs[1]:
        return {"reproduced": True, "sig": {"kind": "bytes_depend_on_sink_kind"}, "detail": "bytes differ between a sink whose write returns a count and one returning None"}

    class KeepsReferences:
        """a gather-style sink: queues what it is handed without copying (as an asyncio transport may)"""

        def __init__(self):
            self.chunks = []

        def write(self, b):
            self.chunks.append(b)

    ks = KeepsReferences()
    ks.write(lead)
    for h, x in msgs:
        entity_writer(hcls)(ks, h)
        entity_writer(cls)(ks, x)
    ks.write(trail)
    if b"".join(bytes(c) for c in ks.chunks) != outs[0]:
        return {"reproduced": True, "sig": {"kind": "bytes_depend_on_sink_kind", "sink": "keeps references to the written buffers"},
                "detail": f"{w['class']}: a sink that queues the objects passed to write() ends up with different bytes than io.BytesIO (a written buffer is reused)"}
    r = ReadOnly(outs[0])
    r.read(len(lead))
    try:
        for h, x in msgs:
            h2 = entity_reader(hcls)(r)
            x2 = entity_reader(cls)(r)
            if h2 != h or x2 != x:
                return {"reproduced": True, "sig": {"kind": "stream_decode_mismatch"}, "detail": f"{w['class']}: message decoded from the stream differs from what was written"}
    except Exception as e:
        return {"reproduced": True, "sig": {"kind": "reader_raises_on_read_only_source", **_exc_sig(e)},
                "detail": f"{w['class']}: {type(e).__name__}: {e}; attributes touched: {r.used}"}
    if r.used:
        return {"reproduced": True, "sig": {"kind": "source_protocol", "attrs": sorted(set(r.used))}, "detail": f"decoder touched {r.used} on the source"}
    if r.read() != trail:
        return {"reproduced": True, "sig": {"kind": "trail"}, "detail": "bytes after the last message are not exactly the trailing bytes"}
    return {"reproduced": False, "detail": "stream round trip ok on write-only/read-only objects"}


def replay_C19(w, clause):
    """two-call history on the real cached reader/writer with real streams"""
    from kio.serial import entity_reader, entity_writer

    from . import kref, shapes
    from .props import c19

    cls = shapes.class_by_id(w["class"])
    if w.get("order"):
        differing, n, detail = c19.order_dependence()
        if w["class"] in differing:
            return {"reproduced": True, "sig": {"kind": "depends_on_creation_order"},
                    "detail": f"{w['class']}: encoding/decoding/closure structure differs when all readers and writers are created in forward vs reverse class order: {detail.get(w['class'])}"}
        return {"reproduced": False, "detail": "same behaviour in both creation orders"}
    if "finite" in w:
        others = []
        fin = c19.finite_checks(cls, {}, others)
        ok = fin.get(w["finite"], True)
        return {"reproduced": not ok, "sig": {"kind": "finite", "which": w["finite"]}, "detail": f"{w['class']}: {w['finite']} = {ok}"}
    a, b = shapes.from_jsonable(w["a"]), shapes.from_jsonable(w["b"])
    wr, rd = entity_writer(cls), entity_reader(cls)
    k = w.get("fault_k")
    kind = w["call1"]
    if kind.startswith("interleaved"):
        return _c19_interleaved(cls, a, b, kind, k, wr, rd, kref, w)
    cuts = [None]
    if kind == "read_truncated":
        n = len(_encode(cls, a))
        cuts = [w["cut"]] if w.get("cut") is not None else list(range(n - 1, -1, -1))[:400]
    verdict = None
    for cut in cuts:
        verdict = _c19_history(cls, a, b, kind, k, cut, wr, rd, c19, kref, w)
        if verdict["reproduced"]:
            return verdict
    return verdict


def _c19_interleaved(cls, a, b, kind, k, wr, rd, kref, w):
    """call A suspended inside its k-th stream call while a complete call B runs on the same cached closure"""
    ref_a, ref_b = bytes(kref.encode(a)), bytes(kref.encode(b))
    state = {"n": 0, "b": None}
    try:
        if kind == "interleaved_write":
            class S1:
                def __init__(self):
                    self.buf = bytearray()

                def write(self, data):
                    if state["n"] == k and state["b"] is None:
                        sb = io.BytesIO()
                        wr(sb, b)
                        state["b"] = sb.getvalue()
                    state["n"] += 1
                    self.buf += bytes(data)

            s1 = S1()
            wr(s1, a)
            if state["b"] is None:
                return {"reproduced": False, "detail": "switch index beyond the last write"}
            if bytes(s1.buf) != ref_a or state["b"] != ref_b:
                which = "A" if bytes(s1.buf) != ref_a else "B"
                return {"reproduced": True, "sig": {"kind": "interleaving_changes_result", "call": which, "op": "write"},
                        "detail": f"{w['class']}: with call B run inside A's write #{k}, the bytes of call {which} differ from the bytes it produces alone"}
        else:
            class R1:
                def __init__(self, data):
                    self.b = io.BytesIO(data)

                def read(self, n=-1):
                    if state["n"] == k and state["b"] is None:
                        state["b"] = (rd(io.BytesIO(ref_b)),)
                    state["n"] += 1
                    return self.b.read(n)

            ya = rd(R1(ref_a))
            if state["b"] is None:
                return {"reproduced": False, "detail": "switch index beyond the last read"}
            if ya != a or state["b"][0] != b:
                which = "A" if ya != a else "B"
                return {"reproduced": True, "sig": {"kind": "interleaving_changes_result", "call": which, "op": "read"},
                        "detail": f"{w['class']}: with call B run inside A's read #{k}, call {which} decodes to a different value than alone"}
    except Exception as e:
        return {"reproduced": True, "sig": {"kind": "interleaving_raises", **_exc_sig(e)}, "detail": f"{w['class']}: {type(e).__name__}: {e} with call B run inside call A's stream call #{k}"}
    return {"reproduced": False, "detail": "interleaving has no effect"}


def _c19_history(cls, a, b, kind, k, cut, wr, rd, c19, kref, w):
    frame = c19.Frame(wr, rd)

    class FaultySink:
        def __init__(self, k, where):
            self.n = 0
            self.k = k
            self.where = where
            self.buf = bytearray()

        def write(self, data):
            frame.check(self.where)
            if self.k is not None and self.n == self.k:
                self.n += 1
                raise OSError("injected")
            self.n += 1
            self.buf += bytes(data)

    class FaultySource:
        def __init__(self, data, k, limit, where):
            self.b = io.BytesIO(data if limit is None else data[:limit])
            self.n = 0
            self.k = k
            self.where = where

        def read(self, n=-1):
            frame.check(self.where)
            if self.k is not None and self.n == self.k:
                self.n += 1
                raise OSError("injected")
            self.n += 1
            return self.b.read(n)

    try:
        if kind.startswith("write"):
            wr(FaultySink(k if kind == "write_fault" else None, "during call 1 (write)"), a)
        elif kind.startswith("read"):
            data = _encode(cls, a)
            rd(FaultySource(data, k if kind == "read_fault" else None, cut, "during call 1 (read)"))
    except Exception:
        pass
    frame.check("after call 1")
    sink2 = FaultySink(None, "during call 2 (write)")
    try:
        wr(sink2, b)
    except Exception as e:
        return {"reproduced": True, "sig": {"kind": "call2_writer_raises", **_exc_sig(e)}, "detail": f"after {kind}: {type(e).__name__}: {e}"}
    got = bytes(sink2.buf)
    ref = bytes(kref.encode(b))
    if got != ref:
        return {"reproduced": True, "sig": {"kind": "call2_bytes_differ", "after": kind}, "detail": f"{w['class']}: after call 1 ({kind}) the cached writer encodes b differently from the reference"}
    try:
        out = rd(FaultySource(got, None, None, "during call 2 (read)"))
    except Exception as e:
        return {"reproduced": True, "sig": {"kind": "call2_reader_raises", **_exc_sig(e)}, "detail": f"after {kind}: {type(e).__name__}: {e}"}
    if out != b:
        return {"reproduced": True, "sig": {"kind": "call2_value_differs", "after": kind}, "detail": f"{w['class']}: after call 1 ({kind}, cut={cut}, fault={k}) the cached reader decodes b's bytes to a different value"}
    frame.check("after call 2")
    if frame.broken:
        return {"reproduced": True, "sig": {"kind": "shared_state_written", "when": frame.broken}, "detail": f"{w['class']}: state reachable from the cached reader/writer changed {frame.broken}"}
    return {"reproduced": False, "detail": "history has no effect on the real code"}


def replay_C08(w, clause):
    from .props import c08

    if "facts" in w:
        rows = c08.payload_rows()
        bad = []
        if w["facts"] == "every_request_and_response_class_advertises_api_key_and_header_schema":
            from . import shapes

            silent = [shapes.class_id(c) for c in shapes.all_entity_classes()
                      if getattr(getattr(c, "__type__", None), "name", None) in ("request", "response")
                      and (getattr(c, "__api_key__", None) is None or getattr(c, "__header_schema__", None) is None)]
            return {"reproduced": bool(silent), "sig": {"kind": "facts", "rule": w["facts"]}, "detail": f"no API key / header schema on {silent[:3]} (+{max(0, len(silent) - 3)} more)"}
        for r in rows:
            if r["type"] == "request":
                want = 0 if (r["key"] == 7 and r["version"] == 0) else (2 if r["flexible"] else 1)
                if w["facts"] == "request_header_follows_rule" and (r["header_kind"] != "request_header" or r["header_version"] != want):
                    bad.append(r)
            else:
                want = 0 if r["key"] == 18 else (1 if r["flexible"] else 0)
                if w["facts"] == "response_header_follows_rule" and (r["header_kind"] != "response_header" or r["header_version"] != want):
                    bad.append(r)
        by = {}
        for r in rows:
            by.setdefault((r["api"], r["version"]), {})[r["type"]] = r
        for (api, v), d in by.items():
            if w["facts"] == "request_and_response_share_key_and_flexibility" and len(d) == 2 and (
                    d["request"]["key"] != d["response"]["key"] or d["request"]["flexible"] != d["response"]["flexible"]):
                bad.append(d["request"])
            if w["facts"] == "every_request_has_a_response" and "response" not in d:
                bad.append(d["request"])
            if w["facts"] == "every_response_has_a_request" and "request" not in d:
                bad.append(d["response"])
        if bad:
            from . import shapes

            return {"reproduced": True, "sig": {"kind": "facts", "rule": w["facts"]}, "detail": f"{w['facts']} broken by {shapes.class_id(bad[0]['cls'])} (+{len(bad) - 1} more)"}
        return {"reproduced": False, "detail": "rule holds on the real classes"}
    import kio.index as ki

    truth = c08.truth_table()
    fwd = ki.load_response_from_request if w["direction"] == "req->resp" else ki.load_request_from_response
    t_to = "response" if w["direction"] == "req->resp" else "request"
    key, ver = w["key"], w["version"]
    try:
        cls = fwd(c08.StandIn(key, ver))
    except ki.UnknownAPIKey:
        ok = all(k != key for (k, v, t) in truth)
        return {"reproduced": not ok, "sig": {"kind": "UnknownAPIKey_for_known_key"}, "detail": f"key {key}"}
    except ki.UnknownEntity:
        ok = any(k == key for (k, v, t) in truth) and (key, ver, t_to) not in truth
        return {"reproduced": not ok, "sig": {"kind": "UnknownEntity_wrong"}, "detail": f"key {key} version {ver}"}
    except Exception as e:
        return {"reproduced": True, "sig": {"kind": "undocumented_error", **_exc_sig(e)}, "detail": f"key {key} version {ver}: {type(e).__name__}: {e}"}
    if truth.get((key, ver, t_to)) is not cls:
        return {"reproduced": True, "sig": {"kind": "wrong_class"}, "detail": f"key {key} version {ver}: returned {cls!r}"}
    return {"reproduced": False, "detail": "correct class"}


def replay_C09(w, clause):
    from .props import c09

    if "facts" in w:
        res, _, _ = c09.facts()
        for name, ok, detail in res:
            if name == w["facts"]:
                return {"reproduced": ok is False, "sig": {"kind": "facts", "rule": name}, "detail": f"{name}: {detail}"}
        return {"reproduced": None, "error": "unknown facts query"}
    import kio.index as ki
    from kio.static.constants import EntityType

    T = c09.truth()
    kn = c09.key_names()
    f = getattr(ki, w["fn"])
    et = EntityType[w["etype"]]
    key, ver, name = w.get("key"), w["version"], w.get("name")
    if name is None:
        names = kn.get(key)
        name = sorted(names)[0] if names else None
    try:
        if w["fn"] in ("load_request_schema", "load_response_schema"):
            res = f(key, ver)
        elif w.get("name") is None:
            res = f(key, ver, et)
        else:
            res = f(w["name"], ver, et)
    except ki.UnknownAPIKey:
        ok = w.get("name") is None and key not in kn
        return {"reproduced": not ok, "sig": {"kind": "UnknownAPIKey_wrong"}, "detail": f"{w}"}
    except ki.UnknownEntity:
        ok = name is not None and (name, ver, w["etype"]) not in T
        return {"reproduced": not ok, "sig": {"kind": "UnknownEntity_wrong"}, "detail": f"{w}"}
    except Exception as e:
        return {"reproduced": True, "sig": {"kind": "undocumented_error", **_exc_sig(e)}, "detail": f"{w}: {type(e).__name__}: {e}"}
    want = T.get((name, ver, w["etype"]))
    if want is None or (res is not want[0] and res is not want[1]):
        return {"reproduced": True, "sig": {"kind": "wrong_result"}, "detail": f"{w}: returned {res!r}"}
    return {"reproduced": False, "detail": "correct"}


def replay_C15(w, clause):
    import dataclasses as _dc

    from . import shapes

    if "facts" in w:
        from .props import c15

        q = c15.rules()[0]
        for name, ok, detail in q.results:
            if name == w["facts"]:
                return {"reproduced": ok is False, "sig": {"kind": "facts", "rule": name}, "detail": f"{name}: {detail}"}
        return {"reproduced": None, "error": "unknown facts rule"}

    a, b = shapes.from_jsonable(w["a"]), shapes.from_jsonable(w["b"])

    def fieldwise(x, y):
        if _dc.is_dataclass(x) and not isinstance(x, type):
            return type(x) is type(y) and all(fieldwise(getattr(x, f.name), getattr(y, f.name)) for f in _dc.fields(x))
        if isinstance(x, tuple):
            return isinstance(y, tuple) and len(x) == len(y) and all(fieldwise(p, q) for p, q in zip(x, y))
        return x == y

    spec = fieldwise(a, b)
    got = a == b
    if got != spec:
        return {"reproduced": True, "sig": {"kind": "eq_disagrees_with_fieldwise"}, "detail": f"{w['class']}: a == b is {got} but field-wise equality is {spec}"}
    if not (a == a) or (a != b) == got:
        return {"reproduced": True, "sig": {"kind": "eq_not_reflexive_or_ne_inconsistent"}, "detail": w["class"]}
    try:
        if got and hash(a) != hash(b):
            return {"reproduced": True, "sig": {"kind": "equal_but_hash_differs"}, "detail": w["class"]}
    except TypeError as e:
        return {"reproduced": True, "sig": {"kind": "unhashable"}, "detail": f"{w['class']}: {e}"}
    return {"reproduced": False, "detail": "__eq__ agrees with field-wise equality"}


def replay_C17(w, clause):
    import kio.records.writers as W

    from .props import reclib

    nb = reclib.batch_from_json(w["batch"])
    buf = io.BytesIO()
    try:
        getattr(W, w.get("entry", "write_new_batch"))(buf, nb)
    except Exception as e:
        return {"reproduced": True, "sig": {"kind": "writer_raises", **_exc_sig(e)}, "detail": f"{type(e).__name__}: {e}"}
    data = buf.getvalue()
    import crc32c

    from . import kref

    ref = bytes(kref.batch_items(nb, lambda items: crc32c.crc32c(bytes(items))))
    if data != ref:
        k = next((i for i in range(min(len(data), len(ref))) if data[i] != ref[i]), min(len(data), len(ref)))
        field = ("base_offset" if k < 8 else "batch_length" if k < 12 else "partition_leader_epoch" if k < 16 else "magic" if k < 17 else "crc" if k < 21 else
                 "attributes" if k < 23 else "last_offset_delta" if k < 27 else "base_timestamp" if k < 35 else "max_timestamp" if k < 43 else "after_max_timestamp")
        return {"reproduced": True, "sig": {"kind": "bytes_differ_from_reference", "first_field": field},
                "detail": f"first difference at byte {k} ({field}): kio {data[max(0,k-4):k+8].hex()} reference {ref[max(0,k-4):k+8].hex()}"}
    return {"reproduced": False, "detail": "bytes equal the reference batch"}


def replay_C18(w, clause):
    import datetime

    import kio.records.readers as R
    import kio.records.writers as W

    from .props import reclib

    data = bytes.fromhex(w["bytes"])
    kind = w["kind"]
    if kind == "faithful":
        ref = reclib.decode_batch(data)
        try:
            rb = R.read_batch(io.BytesIO(data + b"\x00"))
        except Exception as e:
            return {"reproduced": True, "sig": {"kind": "well_formed_batch_rejected", **_exc_sig(e)}, "detail": f"{type(e).__name__}: {e} on {data[:80].hex()}"}
        for k in ("base_offset", "batch_length", "partition_leader_epoch", "crc", "attributes", "last_offset_delta", "base_timestamp", "max_timestamp", "producer_id", "producer_epoch", "base_sequence"):
            if getattr(rb, k) != ref[k]:
                return {"reproduced": True, "sig": {"kind": "header_field_differs", "field": k}, "detail": f"{k}: encoded {ref[k]} read {getattr(rb, k)}"}
        if len(rb.records) != len(ref["records"]):
            return {"reproduced": True, "sig": {"kind": "record_count"}, "detail": "record count differs"}
        dropped = False
        for r, e in zip(rb.records, ref["records"]):
            if (r.attributes, r.offset, r.key, r.value, [(h.key, h.value) for h in r.headers]) != (e["attributes"], e["offset"], e["key"], e["value"], e["headers"]):
                return {"reproduced": True, "sig": {"kind": "record_field_differs"}, "detail": f"record {r!r} vs encoded {e!r}"[:400]}
            us = ((r.timestamp - reclib.EPOCH).days * 86400 + (r.timestamp - reclib.EPOCH).seconds) * 10**6 + (r.timestamp - reclib.EPOCH).microseconds
            if us != e["timestamp_ms"] * 1000:
                if us == (e["timestamp_ms"] // 1000) * 10**6:
                    dropped = (e["timestamp_ms"], us)
                else:
                    return {"reproduced": True, "sig": {"kind": "record_timestamp_wrong"}, "detail": f"encoded {e['timestamp_ms']} ms, read {us} us"}
        buf = io.BytesIO()
        try:
            W.write_batch(buf, rb)
        except Exception as ex:
            return {"reproduced": True, "sig": {"kind": "read_batch_result_not_writable", **_exc_sig(ex)}, "detail": f"{type(ex).__name__}: {ex}"}
        if dropped:
            return {"reproduced": True, "sig": {"kind": "record_timestamp_subsecond_dropped"},
                    "detail": f"record timestamp encoded as {dropped[0]} ms is returned as {dropped[1]} us (milliseconds dropped); rewriting the batch then differs from the input"}
        if buf.getvalue() != data:
            return {"reproduced": True, "sig": {"kind": "rewrite_differs"}, "detail": f"write_batch(read_batch(b)) != b: {buf.getvalue()[:80].hex()} vs {data[:80].hex()}"}
        return {"reproduced": False, "detail": "faithful"}
    if kind == "corrupt":
        d = bytearray(data)
        if d[w["pos"]] == w["val"]:
            return {"reproduced": False, "detail": "replacement equals the original byte"}
        d[w["pos"]] = w["val"]
        try:
            R.read_batch(io.BytesIO(bytes(d)))
        except Exception:
            return {"reproduced": False, "detail": "corruption detected"}
        return {"reproduced": True, "sig": {"kind": "corruption_undetected", "region": "crc" if w["pos"] < 21 else "body"}, "detail": f"byte {w['pos']} set to {w['val']}: read_batch returned a batch"}
    if kind == "magic":
        d = bytearray(data)
        d[16] = w["magic"]
        try:
            R.read_batch(io.BytesIO(bytes(d)))
        except ValueError:
            return {"reproduced": False, "detail": "ValueError"}
        except Exception as e:
            return {"reproduced": True, "sig": {"kind": "wrong_magic_other_exception", **_exc_sig(e)}, "detail": f"{type(e).__name__}"}
        return {"reproduced": True, "sig": {"kind": "wrong_magic_accepted"}, "detail": f"magic {w['magic']} accepted"}
    k = w["cut"]
    try:
        R.read_batch(io.BytesIO(data[:k]))
    except Exception:
        return {"reproduced": False, "detail": "truncation raises"}
    return {"reproduced": True, "sig": {"kind": "truncated_batch_accepted"}, "detail": f"first {k} of {len(data)} bytes decode to a batch"}


def replay_C16(w, clause):
    _REPO = __import__("os").environ.get("KIO_REPO", "/repo")
    sys.path.insert(0, _REPO) if _REPO not in sys.path else None
    from codegen.case import to_snake_case

    if "definitions" in w:
        from .props import c16e

        return c16e.replay(w, clause)
    if "index_generation" in w:
        from .props import c16

        bad = c16.index_generation()
        return {"reproduced": bool(bad), "sig": {"kind": "index_generation"}, "detail": "; ".join(bad)[:400] or "generated index equals the package walk"}
    if "snake_builtin" in w:
        n = w["snake_builtin"]
        return {"reproduced": True, "sig": {"kind": "builtin_suffix"}, "detail": f"to_snake_case({n!r}) = {to_snake_case(n)!r}"}
    s = w["snake"]
    try:
        out = to_snake_case(s)
    except Exception as e:
        return {"reproduced": True, "sig": {"kind": "to_snake_case_raises", "exception": type(e).__name__, "length": len(s)},
                "detail": f"to_snake_case({s!r}) raised {type(e).__name__}: {e}"}
    exp = ""
    for i, ch in enumerate(s):
        if i >= 1 and ch.isupper() and (s[i - 1].islower() or ((s[i - 1].isupper() or s[i - 1].isdigit()) and i + 1 < len(s) and s[i + 1].islower())):
            exp += "_"
        exp += ch.lower()
    if out.rstrip("_") != exp.rstrip("_") and out != exp:
        return {"reproduced": True, "sig": {"kind": "underscore_positions"}, "detail": f"to_snake_case({s!r}) = {out!r}, convention gives {exp!r}"}
    return {"reproduced": False, "detail": f"{s!r} -> {out!r}"}


if __name__ == "__main__":
    sys.exit(main(sys.argv[1:]))
