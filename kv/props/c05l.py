"""C05 (b) - primitive level, full wire domain: for every wire value the reader accepts,
writing the decoded value reproduces the wire value (lossy-prone types)."""
from __future__ import annotations


def _rw():
    from kio.serial import readers, writers

    return readers, writers


I64 = (-(2**63), 2**63 - 1)


def mk_duration(bits):
    lo, hi = (-(2**31), 2**31 - 1) if bits == 32 else I64
    fmt = ">i" if bits == 32 else ">q"

    def lemma(I):
        R, Wr = _rw()
        ms = I.int("ms", lo, hi)
        src = I.src([I.packed(fmt, ms)]) if I.symbolic else I.src(I.packed(fmt, ms))
        try:
            td = getattr(R, f"read_timedelta_i{bits}")(src)
        except OverflowError:
            I.outcome("not_accepted")
            # only values datetime.timedelta cannot hold may be refused
            I.check("refused_only_beyond_timedelta_range", I.any([ms > 86399999999999999, ms < -86399999913600000]))
            return
        s = I.sink()
        getattr(Wr, f"write_timedelta_i{bits}")(s, td)
        out = I.written(s)
        I.check("reencoding_reproduces_wire_value", I.unpacked(out[0] if I.symbolic else out) == ms)

    return lemma


def mk_timestamp(nullable):
    def lemma(I):
        R, Wr = _rw()
        from kio.serial.errors import OutOfBoundValue

        Rd = R.read_nullable_datetime_i64 if nullable else R.read_datetime_i64
        W = Wr.write_nullable_datetime_i64 if nullable else Wr.write_datetime_i64
        ms = I.int("ms", *I64)
        src = I.src([I.packed(">q", ms)]) if I.symbolic else I.src(I.packed(">q", ms))
        try:
            dt = Rd(src)
        except (OutOfBoundValue, OverflowError, ValueError):
            I.outcome("not_accepted")
            neg = ms < (-1 if nullable else 0)
            I.check("refused_only_negative_or_beyond_year_9999", I.any([neg, ms > 253402300799999] + ([] if nullable else [ms == -1])))
            return
        s = I.sink()
        W(s, dt)
        out = I.written(s)
        I.check("reencoding_reproduces_wire_value", I.unpacked(out[0] if I.symbolic else out) == ms)

    return lemma


def lemma_uuid(I):
    R, Wr = _rw()
    bs = [I.byte(f"b{i}") for i in range(16)]
    u = R.read_uuid(I.src(bs))
    s = I.sink()
    Wr.write_uuid(s, u)
    I.check("reencoding_reproduces_bytes", I.same_bytes(I.written(s), bs))


def lemma_float(I):
    R, Wr = _rw()
    bs = [I.byte(f"b{i}") for i in range(8)]
    f = R.read_float64(I.src(bs))
    s = I.sink()
    Wr.write_float64(s, f)
    I.check("bit_pattern_preserved_incl_nan_payload_and_negative_zero", I.same_bytes(I.written(s), bs))


def lemma_error_code(I):
    R, Wr = _rw()
    bs = [I.byte("b0"), I.byte("b1")]
    try:
        e = R.read_error_code(I.src(bs))
    except ValueError:
        I.outcome("not_accepted")
        return
    s = I.sink()
    Wr.write_error_code(s, e)
    I.check("reencoding_reproduces_bytes", I.same_bytes(I.written(s), bs))


def lemma_bool(I):
    """a boolean byte other than 0/1 is accepted and normalised to 1: the one canonicalising
    primitive; canonical encodings only contain 0/1"""
    R, Wr = _rw()
    b = I.int("b", 0, 1)
    v = R.read_boolean(I.src([b]))
    s = I.sink()
    Wr.write_boolean(s, v)
    I.check("reencoding_reproduces_canonical_byte", I.same_bytes(I.written(s), [b]))


LEMMAS = [
    ("wire_timedelta_i32", (mk_duration(32), {"rmode": True})),
    ("wire_timedelta_i64", (mk_duration(64), {"rmode": True})),
    ("wire_datetime_i64", (mk_timestamp(False), {"rmode": True})),
    ("wire_nullable_datetime_i64", (mk_timestamp(True), {"rmode": True})),
    ("wire_uuid", lemma_uuid),
    ("wire_float64", lemma_float),
    ("wire_error_code", lemma_error_code),
    ("wire_boolean", lemma_bool),
]
