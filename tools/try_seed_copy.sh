#!/bin/bash
# tools/try_seed_copy.sh <seed dir> <check ids...> : like try_seed.sh but on a scratch worktree (KIO_REPO),
# so that it can run while other checks use /repo.  The worktree is removed afterwards.
SEED=$1; shift
WT=/tmp/seedrepo_$$
git -C /repo worktree add -q $WT HEAD || exit 9
cp /repo/src/kio/_version.py $WT/src/kio/_version.py
( cd $WT && git apply "$SEED/patch.diff" ) || { echo "patch does not apply"; git -C /repo worktree remove --force $WT; exit 9; }
cd /verif
for id in "$@"; do
  out=$(KIO_REPO=$WT REPLAY_TAG=$$ ./check $id --tier ${TIER:-quick} 2>&1); rc=$?
  echo "== $id exit=$rc"; echo "$out" | grep -E "VIOLATION|KNOWN-FINDING|INCONCLUSIVE|clause=" | cut -c1-330 | head -6
done
git -C /repo worktree remove --force $WT
