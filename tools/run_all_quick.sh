#!/bin/bash
# run every registered quick check sequentially; summary at the end
cd /verif
for id in C11 C12 C13 C14 C15 C16 C08 C09 C17 C18 C01 C02 C03 C05 C06 C07 C10 C19; do
  s=$(date +%s); out=$(./check $id --tier ${TIER:-quick} 2>&1); rc=$?; e=$(date +%s)
  echo "$id exit=$rc wall=$((e-s))s :: $(echo "$out" | grep -E "^(OK|VIOLATION|INCONCLUSIVE|KNOWN)" | cut -c1-160 | head -3 | tr '\n' '|')"
done
