"""kv.shapes - discovery of entity classes, plan signatures, the symbolic instance builder
and the explicit shape schedule (base shape, then all 1-, 2-, ... deviations)."""
from __future__ import annotations

import dataclasses
import datetime
import importlib
import os
import pkgutil
import uuid

import z3

from . import sym as S
from .core import Ctx
from .kref import EPOCH, field_type, split_annotation
from .sym import Blob, SymBool, SymBytes, SymEnumMember, SymFloat, SymInt, SymStr, SymUUID, W

INT_RANGE = {"int8": (-2**7, 2**7 - 1), "int16": (-2**15, 2**15 - 1), "int32": (-2**31, 2**31 - 1),
             "int64": (-2**63, 2**63 - 1), "uint8": (0, 2**8 - 1), "uint16": (0, 2**16 - 1),
             "uint32": (0, 2**32 - 1), "uint64": (0, 2**64 - 1)}

# length regions of variable-length fields (bytes); boundaries = varint size steps and the
# legacy int16 limit.  Inside a region the length is symbolic.
REGIONS_ALL = [(0, 126), (127, 16382), (16383, 2**21 - 2), (2**21 - 1, 2**28 - 2), (2**28 - 1, 2**31 - 1)]
REGIONS_QUICK = REGIONS_ALL[:3]  # every length below 2^21 (the legacy int16 limit is a fork inside the third region)

MS = datetime.timedelta(milliseconds=1)
TD32_REPS = [datetime.timedelta(milliseconds=1234), datetime.timedelta(0), datetime.timedelta(milliseconds=-1),
             datetime.timedelta(milliseconds=2**31 - 1), datetime.timedelta(milliseconds=-(2**31))]
TD64_REPS = [datetime.timedelta(milliseconds=1234), datetime.timedelta(0), datetime.timedelta(milliseconds=-1),
             datetime.timedelta(milliseconds=2**31), datetime.timedelta(milliseconds=2**53 + 1),
             datetime.timedelta(milliseconds=-(2**53) - 1), datetime.timedelta(milliseconds=86399999999999999)]
# wire values a Kafka peer may send that datetime cannot hold (kept as raw millisecond counts)
class RawMillis(int):
    """a wire millisecond count with no Python time representation"""


TD64_WIRE_ONLY = [RawMillis(2**62), RawMillis(-(2**63))]
DT_WIRE_ONLY = [RawMillis(253402300800000), RawMillis(2**63 - 1)]
DT_REPS = [EPOCH + datetime.timedelta(seconds=1577836800), EPOCH, EPOCH + datetime.timedelta(milliseconds=1500),
           EPOCH + datetime.timedelta(milliseconds=1), EPOCH + datetime.timedelta(milliseconds=65536002),
           EPOCH + datetime.timedelta(milliseconds=253402300799999)]


# ---------------------------------------------------------------------------------------
_classes_cache = None


def all_entity_classes():
    """Every dataclass defined in a module under kio.schema, found by walking the package
    directory (not through the generated index).  -> list of classes, sorted."""
    global _classes_cache
    if _classes_cache is not None:
        return _classes_cache
    import kio.schema

    out = []
    for mi in pkgutil.walk_packages(kio.schema.__path__, "kio.schema."):
        if mi.ispkg:
            continue
        mod = importlib.import_module(mi.name)
        for name, obj in vars(mod).items():
            if isinstance(obj, type) and dataclasses.is_dataclass(obj) and obj.__module__ == mi.name:
                out.append(obj)
    out.sort(key=lambda c: (c.__module__, c.__qualname__))
    _classes_cache = out
    return out


def all_schema_modules():
    """names of every non-package module under kio.schema (package walk), incl. modules that define no class"""
    import kio.schema

    return sorted(mi.name for mi in pkgutil.walk_packages(kio.schema.__path__, "kio.schema.") if not mi.ispkg)


def class_id(cls):
    return f"{cls.__module__}:{cls.__qualname__}"


def class_by_id(cid):
    m, q = cid.split(":")
    return getattr(importlib.import_module(m), q)


def plan_signature(cls, _seen=None):
    """Everything a serializer may legitimately read from a class: flexible flag, the
    RequestHeader/client_id special case, and per field: kind, kafka_type, optionality, tag,
    default, nested signature."""
    _seen = _seen or ()
    if cls in _seen:
        return ("rec", cls.__name__)
    fs = []
    for f in dataclasses.fields(cls):
        is_array, nullable, inner, item_nullable = split_annotation(field_type(cls, f))
        nested = plan_signature(inner, _seen + (cls,)) if dataclasses.is_dataclass(inner) else getattr(inner, "__name__", repr(inner))
        d = f.default
        dr = "MISSING" if d is dataclasses.MISSING else repr(d)
        fs.append((f.name if (cls.__name__ == "RequestHeader" and f.name == "client_id") else "", is_array, nullable,
                   item_nullable, f.metadata.get("kafka_type"), f.metadata.get("tag"), dr, nested))
    return (bool(cls.__flexible__), cls.__name__ == "RequestHeader", tuple(fs))


def signature_representatives(classes):
    reps = {}
    for c in classes:
        reps.setdefault(plan_signature(c), c)
    return list(reps.values())


# ---------------------------------------------------------------------------------------
class Leaf:
    __slots__ = ("path", "kind", "term", "extra")

    def __init__(self, path, kind, term, extra=None):
        self.path, self.kind, self.term, self.extra = path, kind, term, extra


class Builder:
    """Builds an instance of a schema class holding proxies, following `shape`
    (path -> alternative index, 0 = base).  With c=None it only records the trace of
    shape variables (dry run for the schedule)."""

    def __init__(self, c: Ctx | None, shape=None, *, regions=REGIONS_QUICK, wire=False, max_array=2,
                 canonical_uuid=True, finite_float=True, time_symbolic=False, prefix="x", wire_only_times=False, big_array=None):
        self.c = c
        self.shape = shape or {}
        self.trace = []  # (path, n_alternatives)
        self.leaves = []
        self.regions = regions
        self.wire = wire
        self.max_array = max_array
        self.canonical_uuid = canonical_uuid
        self.finite_float = finite_float
        self.time_symbolic = time_symbolic
        self.wire_only_times = wire_only_times
        self.big_array = big_array  # extra length alternative for arrays of fixed-width integers (bulk fast paths)
        self.extras = None
        self.prefix = prefix
        if wire:
            from .kref import Extras

            self.extras = Extras()

    # -- shape variables
    def alt(self, path, n):
        self.trace.append((path, n))
        a = self.shape.get(path, 0)
        return a if a < n else 0

    # -- leaves
    def _int(self, path, lo, hi):
        if self.c is None:
            return 0
        s, v = S.sym_var(path, lo, hi)
        self.leaves.append(Leaf(path, "int", v))
        return s

    def _length(self, path):
        k = self.alt(path + "#len", len(self.regions))
        lo, hi = self.regions[k]
        if self.c is None:
            return 0
        s, v = S.sym_var(path + "#len", lo, hi)
        self.leaves.append(Leaf(path + "#len", "len", v, (lo, hi)))
        return s

    def prim(self, kt, path, nullable):
        c = self.c
        if kt in INT_RANGE:
            return self._int(path, *INT_RANGE[kt])
        if kt == "bool":
            if c is None:
                return False
            b = z3.Bool(path)
            self.leaves.append(Leaf(path, "bool", b))
            return SymBool(b)
        if kt == "string":
            L = self._length(path)
            if c is None:
                return ""
            return SymStr(SymBytes([Blob(L, "str", name=path)]))
        if kt in ("bytes", "records"):
            L = self._length(path)
            if c is None:
                return b""
            return SymBytes([Blob(L, "bytes", name=path)])
        if kt == "uuid":
            if c is None:
                return uuid.UUID(int=7)
            v = z3.BitVec(path, 128)
            if self.canonical_uuid:
                c.add(v != 0)
            self.leaves.append(Leaf(path, "uuid", v))
            return SymUUID(bytes=SymBytes([S.byte_of(z3.Extract(127 - 8 * i, 120 - 8 * i, v)) for i in range(16)]))
        if kt == "error_code":
            from kio.schema.errors import ErrorCode

            if c is None:
                return ErrorCode.none
            vals = sorted(int(m.value) for m in ErrorCode)
            sv, v = S.sym_var(path, vals[0], vals[-1])
            missing = [k for k in range(vals[0], vals[-1] + 1) if k not in set(vals)]
            for k in missing:
                c.add(sv.e != k)
            self.leaves.append(Leaf(path, "error_code", v))
            return SymEnumMember(ErrorCode, sv)
        if kt == "float64":
            if c is None:
                return 0.0
            v = z3.BitVec(path, 64)
            f = SymFloat(v)
            if self.finite_float:
                c.add(f.isfinite().e)
            self.leaves.append(Leaf(path, "float", v))
            return f
        if kt in ("timedelta_i32", "timedelta_i64"):
            reps = TD32_REPS if kt == "timedelta_i32" else TD64_REPS
            if not (self.wire or self.time_symbolic):
                reps = reps[:4]
            elif self.wire_only_times and kt == "timedelta_i64":
                reps = reps + TD64_WIRE_ONLY
            k = self.alt(path + "#t", len(reps))
            return reps[k]
        if kt == "datetime_i64":
            reps = DT_REPS if self.wire or self.time_symbolic else DT_REPS[:4]
            if self.wire_only_times:
                reps = reps + DT_WIRE_ONLY
            k = self.alt(path + "#t", len(reps))
            return reps[k]
        raise NotImplementedError(kt)

    def field_value(self, cls, f, path):
        is_array, nullable, inner, item_nullable = split_annotation(field_type(cls, f))
        kt = f.metadata.get("kafka_type")
        tagged = "tag" in f.metadata
        if is_array:
            alts = [1, 0, 2][: self.max_array + 1] if self.max_array >= 1 else [0]
            if not dataclasses.is_dataclass(inner) and self.max_array >= 2 and kt not in ("string", "bytes", "records"):
                alts = alts + [127]  # compact length prefix boundary (one byte -> two bytes); cheap for scalar items
                if self.big_array and kt in INT_RANGE:
                    alts = alts + [self.big_array]
            n_alts = len(alts) + (1 if nullable else 0)
            a = self.alt(path + "#arr", n_alts)
            if a >= len(alts):
                return None
            n = alts[a]
            if dataclasses.is_dataclass(inner):
                return tuple(self.entity(inner, f"{path}[{i}]") for i in range(n))
            return tuple(self.prim(kt, f"{path}[{i}]", False) for i in range(n))
        if nullable:
            if self.alt(path + "?", 2) == 1:
                return None
        if dataclasses.is_dataclass(inner):
            return self.entity(inner, path)
        return self.prim(kt, path, nullable)

    def entity(self, cls, path=None):
        path = path or self.prefix
        kw = {}
        forced = []
        for f in dataclasses.fields(cls):
            fpath = f"{path}.{f.name}"
            sent = 0
            if self.wire and "tag" in f.metadata:
                # presence: 0 = elided iff default (canonical), 1 = always sent (symbolic value),
                # 2 = the default value itself sent explicitly
                sent = self.alt(fpath + "#sent", 3)
                if sent:
                    forced.append(f.name)
            if sent == 2:
                from .kref import implicit_default

                kw[f.name] = implicit_default(cls, f)
            else:
                kw[f.name] = self.field_value(cls, f, fpath)
        unknown = 0
        if self.wire and cls.__flexible__:
            unknown = self.alt(path + "#unk", 3 if self.max_array >= 2 else 2)
        inst = cls(**kw)
        if self.extras is not None and self.c is not None:
            self.extras.keep.append(inst)
            for name in forced:
                self.extras.force.add((id(inst), name))
            if unknown:
                known = [f.metadata["tag"] for f in dataclasses.fields(cls) if "tag" in f.metadata]
                lst = []
                prev = None
                for j in range(unknown):
                    tag, t = S.sym_var(f"{path}#unk{j}.tag", 0, 2**31 - 1)
                    size, s = S.sym_var(f"{path}#unk{j}.size", 0, 2**21 - 1)
                    for k in known:
                        self.c.add(tag.e != k)
                    if prev is not None:
                        self.c.add(tag.e > prev.e)
                    prev = tag
                    self.leaves.append(Leaf(f"{path}#unk{j}.tag", "int", t))
                    self.leaves.append(Leaf(f"{path}#unk{j}.size", "len", s, (0, 2**21 - 1)))
                    lst.append((tag, size, Blob(size, "bytes", name=f"{path}#unk{j}")))
                self.extras.unknown[id(inst)] = lst
        return inst


def trace_shape(cls, shape, **opts):
    """cls: an entity class, or a callable build(builder) that builds several entities"""
    b = Builder(None, shape, **opts)
    if isinstance(cls, type):
        b.entity(cls)
    else:
        cls(b)
    return b.trace


def shape_schedule(cls, max_shapes, max_dev=3, **opts):
    """base shape, then every shape differing from it in 1, 2, ... shape variables."""
    yield {}, 0
    n = 1
    frontier = [({}, -1)]
    for depth in range(1, max_dev + 1):
        nxt = []
        for shape, last in frontier:
            trace = trace_shape(cls, shape, **opts)
            for pos in range(last + 1, len(trace)):
                path, nalts = trace[pos]
                for a in range(1, nalts):
                    s2 = dict(shape)
                    s2[path] = a
                    if n >= max_shapes:
                        return
                    n += 1
                    yield s2, depth
                    nxt.append((s2, pos))
        frontier = nxt
        if not frontier:
            return


def count_shapes(cls, max_dev, cap=10**6, **opts):
    n = 0
    for _ in shape_schedule(cls, cap, max_dev, **opts):
        n += 1
    return n


# ---------------------------------------------------------------------------------------
MAX_CONCRETE_LEN = 1 << 22
FILL_CLASS = {}  # payload root id -> representative id (payloads the model makes equal get equal content)
FILL_LITERAL = {}  # representative id -> bytes: payloads the model makes equal to a literal of the code under test


def set_payload_classes(c, model):
    """make concretise() give equal content to payloads the model declares equal"""
    FILL_CLASS.clear()
    parent = {}

    def find(x):
        while parent.get(x, x) != x:
            x = parent[x]
        return x

    for (i, j), v in (c.notes.get("blob_eq") or {}).items():
        if z3.is_true(model.eval(v, model_completion=True)):
            parent[find(j)] = find(i)
    for x in list(parent):
        FILL_CLASS[x] = find(x)
    FILL_LITERAL.clear()
    for lit, blob in (c.notes.get("lit_blobs") or {}).items():
        FILL_LITERAL[find(blob.root.id)] = lit.encode() if isinstance(lit, str) else bytes(lit)
    return FILL_CLASS


class TooLarge(Exception):
    pass


_decl_names = {}


def _payload_array(model, rid):
    """the uninterpreted content array of payload `rid` if this model interprets it, else None"""
    key = id(model)
    names = _decl_names.get(key)
    if names is None:
        if len(_decl_names) > 64:
            _decl_names.clear()
        names = _decl_names[key] = ({d.name() for d in model.decls()}, model)  # keeps the model alive: ids stay unique
    name = f"payload_{rid}"
    if name in names[0]:
        return z3.Array(name, z3.BitVecSort(W), z3.BitVecSort(8))
    return None


def concretise(x, model):
    """proxy-holding value -> real Python value under `model`."""
    t = type(x)
    if t is SymInt:
        return model.eval(x.e, model_completion=True).as_signed_long()
    if t is SymBool:
        return z3.is_true(model.eval(x.e, model_completion=True))
    if t is SymFloat:
        import struct

        bits = model.eval(x.bv, model_completion=True).as_long()
        return struct.unpack(">d", bits.to_bytes(8, "big"))[0]
    if t is SymStr:
        b = concretise(x.data, model)
        return b.decode("utf-8")
    if t is SymBytes:
        out = bytearray()
        for it in x.items:
            if type(it) is Blob:
                n = concretise(it.length, model) if type(it.length) is SymInt else it.length
                if n > MAX_CONCRETE_LEN:
                    raise TooLarge(n)
                rid = FILL_CLASS.get(it.root.id, it.root.id)
                lit = FILL_LITERAL.get(rid)
                if lit is not None and len(lit) == n and type(it.off) is int and it.off == 0:
                    out.extend(lit)
                    continue
                fill = (0x61 + (rid % 26)) if it.kind == "str" else (0x41 + (rid % 26))
                content = bytes([fill]) * n
                arr = _payload_array(model, it.root.id)
                if arr is not None and n <= 256 and type(it.off) is int:
                    # the path looked at individual payload bytes (Blob.expand): honour what the model says about them
                    got = bytes(model.eval(z3.Select(arr, z3.BitVecVal(it.off + i, W)), model_completion=True).as_long() & 0xFF for i in range(n))
                    if it.kind != "str" or all(b < 0x80 for b in got):
                        out.extend(got)
                        continue
                if content in FILL_LITERAL.values():  # declared different from that literal: use other content
                    content = bytes([fill + 1 if fill not in (0x7A, 0x5A) else fill - 1]) * n
                out.extend(content)
            elif type(it) is SymInt:
                out.append(model.eval(it.e, model_completion=True).as_long() & 0xFF)
            else:
                out.append(it)
        return bytes(out)
    if t is SymUUID:
        return uuid.UUID(bytes=concretise(SymBytes.of(x.bytes), model))
    if t is SymEnumMember:
        return x.enum(concretise(x.value, model))
    if t is tuple:
        return tuple(concretise(v, model) for v in x)
    if t is list:
        return [concretise(v, model) for v in x]
    if dataclasses.is_dataclass(x) and not isinstance(x, type):
        return type(x)(**{f.name: concretise(getattr(x, f.name), model) for f in dataclasses.fields(x)})
    from .models import DT, TD

    if t is TD:
        us = concretise(x.us, model) if S.proxy_python_type(x.us) else x.us
        return datetime.timedelta(microseconds=us)
    if t is DT:
        secs = concretise(x.secs, model) if S.proxy_python_type(x.secs) else x.secs
        micro = concretise(x.micro, model) if S.proxy_python_type(x.micro) else x.micro
        off = x.tz.offset_s if x.tz is not None else 0
        off = concretise(off, model) if S.proxy_python_type(off) else off
        return (EPOCH + datetime.timedelta(seconds=secs, microseconds=micro)).astimezone(datetime.timezone(datetime.timedelta(seconds=off)))
    return x


def prefer_small(c: Ctx, leaves, extra=None):
    """Ask for a model of the current assertions (+extra) whose lengths are small, so the
    witness can be replayed concretely.  -> model | None"""
    s = c.solver
    s.push()
    try:
        if extra is not None:
            s.add(extra)
        small = [z3.ULE(lf.term, lf.extra[0] + 3) for lf in leaves if lf.kind == "len"]
        if small and s.check(*small) == z3.sat:
            return s.model()
        if s.check() == z3.sat:
            return s.model()
        return None
    finally:
        s.pop()


def to_jsonable(x):
    """real Python value (instance) -> JSON-able description that from_jsonable rebuilds"""
    import enum

    if dataclasses.is_dataclass(x) and not isinstance(x, type):
        return {"__entity__": class_id(type(x)), "fields": {f.name: to_jsonable(getattr(x, f.name)) for f in dataclasses.fields(x)}}
    if isinstance(x, enum.Enum):
        return {"__enum__": f"{type(x).__module__}:{type(x).__qualname__}", "value": int(x.value)}
    if type(x) is RawMillis:
        return {"__rawms__": int(x)}
    if isinstance(x, str) and len(x) > 64 and len(set(x)) == 1:
        return {"__str_rep__": x[0], "n": len(x)}
    if isinstance(x, bool) or x is None or isinstance(x, (int, str)):
        return x
    if isinstance(x, float):
        import struct

        return {"__f64__": struct.pack(">d", x).hex()}
    if isinstance(x, (bytes, bytearray)):
        b = bytes(x)
        if len(b) > 64 and len(set(b)) == 1:
            return {"__bytes_rep__": b[0], "n": len(b)}
        return {"__bytes__": b.hex()}
    if isinstance(x, uuid.UUID):
        return {"__uuid__": x.hex}
    if isinstance(x, datetime.timedelta):
        return {"__timedelta_us__": (x.days * 86400 + x.seconds) * 10**6 + x.microseconds}
    if isinstance(x, datetime.datetime):
        d = x - EPOCH
        off = x.utcoffset()
        return {"__datetime_us__": (d.days * 86400 + d.seconds) * 10**6 + d.microseconds, "offset_s": off.days * 86400 + off.seconds}
    if isinstance(x, (tuple, list)):
        return {"__tuple__": [to_jsonable(v) for v in x]}
    if isinstance(x, dict):
        return {"__dict__": {k: to_jsonable(v) for k, v in x.items()}}
    return {"__repr__": repr(x)}


def from_jsonable(j):
    if isinstance(j, dict):
        if "__entity__" in j:
            cls = class_by_id(j["__entity__"])
            return cls(**{k: from_jsonable(v) for k, v in j["fields"].items()})
        if "__enum__" in j:
            m, q = j["__enum__"].split(":")
            return getattr(importlib.import_module(m), q)(j["value"])
        if "__f64__" in j:
            import struct

            return struct.unpack(">d", bytes.fromhex(j["__f64__"]))[0]
        if "__bytes__" in j:
            return bytes.fromhex(j["__bytes__"])
        if "__rawms__" in j:
            return RawMillis(j["__rawms__"])
        if "__str_rep__" in j:
            return j["__str_rep__"] * j["n"]
        if "__bytes_rep__" in j:
            return bytes([j["__bytes_rep__"]]) * j["n"]
        if "__uuid__" in j:
            return uuid.UUID(hex=j["__uuid__"])
        if "__timedelta_us__" in j:
            return datetime.timedelta(microseconds=j["__timedelta_us__"])
        if "__datetime_us__" in j:
            return (EPOCH + datetime.timedelta(microseconds=j["__datetime_us__"])).astimezone(
                datetime.timezone(datetime.timedelta(seconds=j["offset_s"])))
        if "__tuple__" in j:
            return tuple(from_jsonable(v) for v in j["__tuple__"])
        if "__dict__" in j:
            return {k: from_jsonable(v) for k, v in j["__dict__"].items()}
        raise ValueError(f"cannot rebuild {j}")
    return j
