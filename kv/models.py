"""kv.models - models of the C-level boundaries kio calls (struct, io.BytesIO, datetime,
uuid, math, enum lookup, crc32c) and the stream objects handed to kio (Sink, Src).

Every model falls through to the real implementation when no proxy is involved, so
concrete values run the genuine CPython code (that is how replays and the per-run
differential self-validation work)."""
from __future__ import annotations

import builtins
import datetime as _dt
import io as _io
import math as _math
import struct as _struct
import uuid as _uuid

import z3

from . import sym as S
from .core import PathAbort, Unsupported, ctx
from .sym import Blob, SymBool, SymBytes, SymEnumMember, SymFloat, SymInt, SymRatio, SymStr, SymUUID, W, lift

_isinstance = builtins.isinstance
_len = builtins.len


# ======================================================================================
# struct
_builtins_list = builtins.list


class StructModel:
    error = _struct.error
    Struct = _struct.Struct
    _fmt = {"b": (1, True), "B": (1, False), "h": (2, True), "H": (2, False), "i": (4, True), "I": (4, False),
            "l": (4, True), "L": (4, False), "q": (8, True), "Q": (8, False), "?": (1, False), "d": (8, None)}

    @staticmethod
    def calcsize(fmt):
        return _struct.calcsize(fmt)

    @classmethod
    def _parse(cls, fmt):
        if type(fmt) is not str or _len(fmt) != 2 or fmt[0] not in ">!" or fmt[1] not in cls._fmt:
            raise Unsupported(f"struct format {fmt!r} has no model")
        return cls._fmt[fmt[1]]

    @classmethod
    def _split(cls, fmt):
        """general format -> (big_endian, [code, ...]) with repeat counts expanded; None for the simple '>c' form"""
        if type(fmt) is str and _len(fmt) == 2 and fmt[0] in ">!" and fmt[1] in cls._fmt:
            return None
        if type(fmt) is not str or not fmt:
            raise Unsupported(f"struct format {fmt!r} has no model")
        order, body = ("@", fmt) if fmt[0] not in "@=<>!" else (fmt[0], fmt[1:])
        codes, num = [], ""
        for ch in body:
            if ch.isdigit():
                num += ch
            elif ch.isspace():
                continue
            elif ch in cls._fmt:
                codes += [ch] * (int(num) if num else 1)
                num = ""
            else:
                raise Unsupported(f"struct format {fmt!r} has no model")
        if num or not codes or _len(codes) > 4096:
            raise Unsupported(f"struct format {fmt!r} has no model")
        if order == "@" and (_len({cls._fmt[c][0] for c in codes}) > 1 or any(c in "lL" for c in codes)):
            raise Unsupported(f"struct format {fmt!r}: native alignment/sizes have no model")
        import sys as _sys

        return (order in ">!" or (order in "@=" and _sys.byteorder == "big")), codes

    @classmethod
    def pack(cls, fmt, *vals):
        if not any(type(v).__module__.startswith("kv.") for v in vals):
            return _struct.pack(fmt, *vals)
        sp = cls._split(fmt)
        if sp is not None:
            big, codes = sp
            if _len(vals) != _len(codes):
                raise _struct.error(f"pack expected {_len(codes)} items for packing (got {_len(vals)})")
            out = []
            for code, v in zip(codes, vals):
                its = _builtins_list(SymBytes.of(cls.pack(">" + code, v)).items)
                if not big:
                    its.reverse()
                out += its
            return SymBytes(out)
        n, signed = cls._parse(fmt)
        if _len(vals) != 1:
            raise _struct.error(f"pack expected 1 items for packing (got {_len(vals)})")
        v = vals[0]
        t = type(v)
        pk = getattr(t, "__struct_pack__", None)
        if pk is not None:
            return pk(v, fmt)
        code = fmt[1]
        if code == "d":
            if t is SymFloat:
                return SymBytes([S.byte_of(z3.Extract(63 - 8 * i, 56 - 8 * i, v.bv)) for i in range(8)])
            raise Unsupported(f"struct.pack('>d') of {t.__name__}")
        if code == "?":
            if t is SymBool:
                return S.SymInt(*lift(v)).to_bytes(1, "big")
            if t is SymInt:
                return SymInt(*lift(SymBool(v.e != 0))).to_bytes(1, "big")
            raise Unsupported(f"struct.pack('>?') of {t.__name__}")
        if t is SymBool:
            v = SymInt(*lift(v))
        elif t is SymEnumMember:
            v = v.value
        elif t is not SymInt:
            if t in (SymFloat, SymRatio):
                raise _struct.error("required argument is not an integer")
            raise _struct.error("required argument is not an integer")
        try:
            return v.to_bytes(n, "big", signed=signed)
        except OverflowError as e:
            raise _struct.error(f"'{code}' format requires in-range number") from None

    @classmethod
    def unpack(cls, fmt, data):
        pk = getattr(type(data), "__struct_unpack__", None)
        if pk is not None:
            return pk(data, fmt)
        if type(data) is not SymBytes:
            return _struct.unpack(fmt, data)
        if data.is_concrete():
            return _struct.unpack(fmt, data.concrete())
        sp = cls._split(fmt)
        if sp is not None:
            big, codes = sp
            total = sum(cls._fmt[c][0] for c in codes)
            ln = data.sym_len()
            if type(ln) is SymInt:
                if not ctx().branch(ln.e == total):
                    raise _struct.error(f"unpack requires a buffer of {total} bytes")
            elif ln != total:
                raise _struct.error(f"unpack requires a buffer of {total} bytes")
            its = _builtins_list(data.expanded()) if (data.has_blob() or type(ln) is SymInt) else _builtins_list(data.items)
            out, pos = [], 0
            for code in codes:
                w = cls._fmt[code][0]
                chunk = its[pos:pos + w]
                pos += w
                if not big:
                    chunk = chunk[::-1]
                out.append(cls.unpack(">" + code, SymBytes(chunk))[0])
            return tuple(out)
        n, signed = cls._parse(fmt)
        ln = data.sym_len()
        if type(ln) is SymInt:
            if not ctx().branch(ln.e == n):
                raise _struct.error(f"unpack requires a buffer of {n} bytes")
            data = SymBytes(data.expanded())
        if ln != n:
            raise _struct.error(f"unpack requires a buffer of {n} bytes")
        if data.has_blob():
            data = SymBytes(data.expanded())
        code = fmt[1]
        if code == "d":
            v = S.byte_term(data.items[0])
            for b in data.items[1:]:
                v = z3.Concat(v, S.byte_term(b))
            return (SymFloat(v),)
        v = S.int_from_bytes(data.items, "big", bool(signed))
        if code == "?":
            return (SymBool(v.e != 0),) if type(v) is SymInt else (v != 0,)
        return (v,)


class StructObjModel:
    """stand-in for a precompiled struct.Struct instance held in a module global"""

    def __init__(self, fmt):
        self.format = fmt
        self.size = _struct.calcsize(fmt)

    def pack(self, *vals):
        return StructModel.pack(self.format, *vals)

    def unpack(self, data):
        return StructModel.unpack(self.format, data)

    def pack_into(self, buffer, offset, *vals):
        b = SymBytes.of(self.pack(*vals))
        if type(offset) is SymInt:
            offset = offset.__index__()
        buffer[offset:offset + self.size] = b

    def unpack_from(self, data, offset=0):
        return StructModel.unpack(self.format, SymBytes.of(data)[offset:offset + self.size] if type(data) not in (bytes, bytearray) else data[offset:offset + self.size])

    def __repr__(self):
        return f"<StructObjModel {self.format}>"


# ======================================================================================
# streams
class ProtocolMonitor:
    """Records every attribute a kio function touches on a sink/source."""

    def __init__(self):
        self.forbidden = []
        self.writes = 0
        self.reads = 0


class Sink:
    """Write-only sink: exposes only write().  Any other attribute access is recorded."""

    _allowed = ("write",)

    def __init__(self, monitor: ProtocolMonitor | None = None, returns_count=True, fail_at=None):
        self.__dict__["items"] = []
        self.__dict__["monitor"] = monitor or ProtocolMonitor()
        self.__dict__["returns_count"] = returns_count
        self.__dict__["fail_at"] = fail_at  # None | SymInt | int : raise OSError at the k-th write
        self.__dict__["on_write"] = None

    def write(self, b):
        m = self.monitor
        if self.fail_at is not None:
            k = self.fail_at
            miss = (k != m.writes)  # "no fault here" first: late fault positions are explored first
            if not (miss if type(miss) is bool else bool(miss)):
                m.writes += 1
                raise OSError("injected sink failure")
        m.writes += 1
        if type(b) in (bytearray, memoryview) or type(b).__module__ == "kv.bufmodels":
            # a mutable buffer was handed over: a sink may keep a reference instead of copying
            # (asyncio transports do when the socket is not writable); remember it with its content now
            snap = list(SymBytes.of(b).items)
            self.__dict__.setdefault("retained", []).append((b, snap))
        b = SymBytes.of(b)
        self.items.extend(b.items)
        if self.on_write is not None:
            self.on_write(self)
        return b.sym_len() if self.returns_count else None

    def __getattr__(self, name):
        self.__dict__["monitor"].forbidden.append(name)
        raise AttributeError(name)

    def value(self) -> SymBytes:
        return SymBytes(self.items)

    def retained_unchanged(self):
        """-> (z3 Bool | bool): every mutable buffer that was handed to write() still holds the
        bytes it held at that moment (otherwise a reference-keeping sink sees other bytes than a copying one)"""
        import z3 as _z3

        from . import kref

        conj = []
        for obj, snap in self.__dict__.get("retained", []):
            r, why = kref.items_equal(list(SymBytes.of(obj).items), snap)
            if r is False:
                return False
            if r is not True:
                conj.append(r)
        return _z3.And(*conj) if conj else True


class Src:
    """Read-only source over a SymBytes: exposes only read(n).

    limit: None | int | SymInt - bytes available before the stream ends (symbolic cut).
    """

    def __init__(self, data, limit=None, monitor: ProtocolMonitor | None = None, fail_at=None, cut=False):
        # cut=True: the stream ends inside exactly one of the read calls: every read of n >= 1
        # bytes forks once on "this is the read that falls short", and then returns a bytes
        # with a symbolic a in [0, n-1].  (read index, a) ranges over exactly the strict
        # prefixes that end before the last byte this decode would have consumed.
        self.__dict__["cut"] = cut  # True: fork at every read; int j: exactly the j-th read (of n >= 1 bytes) is the short one
        self.__dict__["cut_reads"] = 0
        self.__dict__["cut_at"] = None  # consumed + a once the short read happened
        self.__dict__["ended"] = False
        self.__dict__["items"] = list(SymBytes.of(data).items)
        self.__dict__["i"] = 0
        self.__dict__["consumed"] = 0  # int | SymInt
        self.__dict__["limit"] = limit
        self.__dict__["monitor"] = monitor or ProtocolMonitor()
        self.__dict__["fail_at"] = fail_at
        self.__dict__["on_read"] = None
        self.__dict__["bad_arg"] = None
        self.__dict__["past_end"] = 0  # how far a seek moved the position beyond the data (io.BytesIO allows it)

    def __getattr__(self, name):
        self.__dict__["monitor"].forbidden.append(name)
        raise AttributeError(name)

    def __setattr__(self, k, v):
        self.__dict__[k] = v

    # A real source may be seekable (io.BytesIO is).  kio is expected not to rely on it: any use is
    # recorded by the monitor (C07 fails on it), but the semantics are those of io.BytesIO so that a
    # decoder using them is followed faithfully.
    def _len_of(self, it):
        return it.length if type(it) is Blob else 1

    def tell(self):
        self.monitor.forbidden.append("tell")
        n = self.past_end
        for it in self.items[: self.i]:
            n = n + self._len_of(it)
        return n

    def seekable(self):
        self.monitor.forbidden.append("seekable")
        return True

    def seek(self, pos, whence=0):
        self.monitor.forbidden.append("seek")
        if whence == 0:
            self.i = 0
            self.past_end = 0
            self.consumed = 0
            delta = pos
        elif whence == 1:
            delta = pos
        elif whence == 2:
            self.i = _len(self.items)
            self.past_end = 0
            delta = pos
        else:
            raise ValueError("invalid whence")
        if type(delta) is SymInt:
            delta = delta.__index__()
        if self.past_end:
            delta += self.past_end
            self.past_end = 0
        while delta > 0 and self.i < _len(self.items):
            ln = self._len_of(self.items[self.i])
            if type(ln) is SymInt:
                ln = ln.__index__()
            if ln <= delta:
                delta -= ln
                self.i += 1
            else:
                it = self.items[self.i]
                self.items[self.i] = Blob(delta, it.kind, it.root, it.off, it.name)
                self.items.insert(self.i + 1, Blob(ln - delta, it.kind, it.root, it.off + delta, it.name))
                self.i += 1
                delta = 0
        if delta > 0:
            self.past_end = delta
        while delta < 0:
            if self.i == 0:
                raise ValueError("negative seek position")
            self.i -= 1
            ln = self._len_of(self.items[self.i])
            if type(ln) is SymInt:
                ln = ln.__index__()
            delta += ln
            if delta > 0:
                it = self.items[self.i]
                if type(it) is not Blob:
                    raise Unsupported("seek into the middle of a byte")
                keep = ln - delta
                self.items[self.i] = Blob(keep, it.kind, it.root, it.off, it.name)
                self.items.insert(self.i + 1, Blob(delta, it.kind, it.root, it.off + keep, it.name))
                self.i += 1
                delta = 0
        n = self.past_end
        for it in self.items[: self.i]:
            n = n + self._len_of(it)
        return n

    def read(self, n=-1):
        m = self.monitor
        if self.fail_at is not None:
            miss = (self.fail_at != m.reads)
            if not (miss if type(miss) is bool else bool(miss)):
                m.reads += 1
                raise OSError("injected source failure")
        m.reads += 1
        if self.on_read is not None:
            self.on_read(self)
        if n is None:
            n = -1
        tn = type(n)
        if tn is SymBool:
            n = SymInt(*lift(n))
            tn = SymInt
        if tn is not int and tn is not SymInt:
            self.bad_arg = repr(tn)
            raise TypeError(f"argument should be integer or None, not '{tn.__name__}'")
        neg = (n < 0)
        if (neg if type(neg) is bool else bool(neg)):
            need = None  # read everything
        else:
            need = n
        if self.ended or self.past_end:
            return b""
        if self.cut is not False and need is not None:
            pos = (need > 0)
            if (pos if type(pos) is bool else bool(pos)):
                c = ctx()
                if self.cut is True:
                    # "not short" is taken first, so the depth-first search visits the cut positions from the
                    # END of the encoding backwards (tagged sections and trailers come last)
                    short = not c.branch(z3.Not(z3.Bool(c.name("short_read"))))
                else:
                    short = (self.cut_reads == self.cut)
                    self.cut_reads += 1
                if short:
                    hi = (need.hi if type(need) is SymInt else need) - 1
                    a, _ = S.sym_var(c.name("short_len"), 0, hi)
                    if type(need) is SymInt:
                        c.add(a.e < need.e)
                    out = self._take(a)
                    r = SymBytes(out)
                    self.cut_at = self.consumed + a
                    self.consumed = self.cut_at
                    self.ended = True
                    del self.items[self.i:]  # the stream physically ends here
                    return S._norm(r)
        if self.limit is not None and need is not None:
            avail = self.limit - self.consumed
            fits = need <= avail
            if not (fits if type(fits) is bool else bool(fits)):
                need = avail
        elif self.limit is not None:
            need = self.limit - self.consumed
        out = self._take(need)
        r = SymBytes(out)
        self.consumed = self.consumed + r.sym_len()
        return S._norm(r)

    def _skip_empty(self):
        while self.i < _len(self.items):
            it = self.items[self.i]
            if type(it) is Blob:
                z = it.length == 0
                if (z if type(z) is bool else bool(z)):
                    self.i += 1
                    continue
            break

    def _take(self, need):
        out = []
        if type(need) is SymInt and _len(self.items) - self.i > 3:
            # fast path: the requested count very often equals the length of a whole prefix of the
            # remaining items (a length field read back); guess the boundary from a model and fork once
            c = ctx()

            def guess():
                m = c.get_model()
                nv = m.eval(need.e, model_completion=True).as_signed_long()
                run, k = 0, self.i
                while k < _len(self.items) and run < nv:
                    it = self.items[k]
                    ln = it.length if type(it) is Blob else 1
                    run += m.eval(ln.e, model_completion=True).as_signed_long() if type(ln) is SymInt else ln
                    k += 1
                return k if (run == nv and k > self.i) else None

            k = c.recorded(guess)
            if k is not None and self.i < k <= _len(self.items):
                total = 0
                for it in self.items[self.i:k]:
                    total = total + (it.length if type(it) is Blob else 1)
                eq = (need == total)
                if (eq if type(eq) is bool else c.branch(eq.e)):
                    out = self.items[self.i:k]
                    self.i = k
                    return [it for it in out if not (type(it) is Blob and type(it.length) is int and it.length == 0)]
        while True:
            self._skip_empty()
            if need is not None:
                z = need == 0
                if (z if type(z) is bool else bool(z)):
                    break
            if self.i >= _len(self.items):
                break
            it = self.items[self.i]
            if type(it) is not Blob:
                out.append(it)
                self.i += 1
                if need is not None:
                    need = need - 1
                continue
            L = it.length
            if need is None:
                out.append(it)
                self.i += 1
                continue
            ge = need >= L
            if (ge if type(ge) is bool else bool(ge)):
                out.append(it)
                self.i += 1
                need = need - L
            else:
                pre = Blob(need, it.kind, it.root, it.off, it.name)
                suf = Blob(L - need, it.kind, it.root, it.off + need, it.name)
                out.append(pre)
                self.items[self.i] = pre  # keep both pieces (a seekable source can move back)
                self.items.insert(self.i + 1, suf)
                self.i += 1
                need = 0
                break
        return out

    def remaining(self) -> SymBytes:
        self._skip_empty()
        return SymBytes(self.items[self.i:])

    def exhausted(self):
        self._skip_empty()
        return self.i >= _len(self.items)


class BufferViewModel:
    """read-only memoryview-like window over an item sequence (symbolic bytes and opaque payloads)"""

    __class__ = property(lambda self: memoryview)

    def __init__(self, items):
        self._items = items

    def items(self):
        return list(self._items)

    def __sym_len__(self):
        return SymBytes(self._items).sym_len()

    def __len__(self):
        n = self.__sym_len__()
        return n if type(n) is int else n.__index__()

    @property
    def nbytes(self):
        return self.__sym_len__()

    def __getitem__(self, k):
        r = SymBytes(self._items)[k]
        if type(k) is slice:
            return BufferViewModel(list(SymBytes.of(r).items))
        return r

    def __setitem__(self, k, v):
        raise Unsupported("write through BytesIO.getbuffer() has no model")

    def tobytes(self):
        return S._norm(SymBytes(self._items))

    def __bytes__(self):
        sb = SymBytes(self._items)
        if sb.is_concrete():
            return sb.concrete()
        raise Unsupported("bytes() of a symbolic buffer view reached C level")

    def __eq__(self, o):
        return SymBytes(self._items) == (SymBytes(o.items()) if hasattr(o, "items") and not isinstance(o, dict) else o)

    def __hash__(self):
        raise Unsupported("hash of a buffer view")

    def release(self):
        pass

    def __enter__(self):
        return self

    def __exit__(self, *a):
        return False

    def __repr__(self):
        return "<BufferViewModel>"


class BytesIOModel:
    """Model of io.BytesIO over item sequences (symbolic bytes and opaque payloads)."""

    def __init__(self, initial_bytes=b""):
        self.items = list(SymBytes.of(initial_bytes).items)
        self.idx = 0  # position as index into items (valid while no blob was split)
        self.closed = False
        self._marks = {}

    def _chk(self):
        if self.closed:
            raise ValueError("I/O operation on closed file.")

    def _pos_len(self, upto):
        n = 0
        for it in self.items[:upto]:
            n = n + (it.length if type(it) is Blob else 1)
        return n

    def write(self, b):
        self._chk()
        b = SymBytes.of(b)
        if self.idx != _len(self.items):
            if not b.has_blob() and all(type(i) is not Blob for i in self.items[self.idx:self.idx + _len(b.items)]):
                self.items[self.idx:self.idx + _len(b.items)] = b.items
                self.idx += _len(b.items)
                return _len(b.items)
            raise Unsupported("BytesIO overwrite across opaque payloads")
        self.items.extend(b.items)
        self.idx = _len(self.items)
        return b.sym_len()

    def getvalue(self):
        self._chk()
        return S._norm(SymBytes(self.items))

    def getbuffer(self):
        # a read-only snapshot view of the current content (writes through the view, and writes to the buffer
        # while a view is alive, are not modelled)
        self._chk()
        return BufferViewModel(list(self.items))

    def tell(self):
        self._chk()
        p = self._pos_len(self.idx)
        if type(p) is SymInt:
            self._marks[id(p)] = (p, self.idx)
        return p

    def seek(self, pos, whence=0):
        self._chk()
        if whence == 2 and type(pos) is int and pos == 0:
            self.idx = _len(self.items)
            return self._pos_len(self.idx)
        if whence == 1 and type(pos) is int and pos == 0:
            return self._pos_len(self.idx)
        if whence != 0:
            raise Unsupported("BytesIO.seek whence != 0")
        if type(pos) is SymInt:
            mk = self._marks.get(id(pos))
            if mk is not None:
                self.idx = mk[1]
                return pos
            pos = pos.__index__()
        if pos < 0:
            raise ValueError(f"negative seek value {pos}")
        n = 0
        for k, it in enumerate(self.items):
            if n == pos:
                self.idx = k
                return pos
            if type(it) is Blob:
                ln = it.length
                if type(ln) is SymInt:
                    raise Unsupported("BytesIO.seek across symbolic-length payload")
                n += ln
                if n > pos:
                    raise Unsupported("BytesIO.seek into a payload")
            else:
                n += 1
        if n == pos:
            self.idx = _len(self.items)
            return pos
        raise Unsupported("BytesIO.seek beyond end")

    def read(self, n=-1):
        self._chk()
        src = Src.__new__(Src)
        src.__dict__.update(items=self.items, i=self.idx, consumed=0, limit=None, monitor=ProtocolMonitor(),
                            fail_at=None, on_read=None, bad_arg=None, cut=False, cut_at=None, ended=False, past_end=0, cut_reads=0)
        r = src.read(n)
        self.idx = src.i
        return r

    def read1(self, n=-1):
        return self.read(n)

    def readinto(self, b):
        raise Unsupported("BytesIO.readinto has no model")

    def truncate(self, size=None):
        self._chk()
        if size is None:
            del self.items[self.idx:]
            return self._pos_len(self.idx)
        if type(size) is SymInt:
            size = size.__index__()
        n = 0
        for k, it in enumerate(self.items):
            if n == size:
                del self.items[k:]
                self.idx = min(self.idx, k)
                return size
            ln = it.length if type(it) is Blob else 1
            if type(ln) is SymInt:
                raise Unsupported("BytesIO.truncate across a symbolic-length payload")
            n += ln
            if n > size:
                raise Unsupported("BytesIO.truncate inside a payload")
        return size

    def readable(self): return True
    def writable(self): return True
    def seekable(self): return True
    def flush(self): pass

    def close(self):
        self.closed = True

    def __enter__(self):
        self._chk()
        return self

    def __exit__(self, *a):
        self.close()
        return False


class IOModel:
    BytesIO = BytesIOModel
    BufferedIOBase = _io.BufferedIOBase
    RawIOBase = _io.RawIOBase
    IOBase = _io.IOBase
    SEEK_SET = 0
    SEEK_CUR = 1
    SEEK_END = 2
    DEFAULT_BUFFER_SIZE = _io.DEFAULT_BUFFER_SIZE
    UnsupportedOperation = _io.UnsupportedOperation


# ======================================================================================
# enum lookup
class EnumModel:
    """Stands in for an Enum class where kio *calls* it with a possibly symbolic value."""

    def __init__(self, real, symbolic_member=False):
        self.__dict__["_real"] = real
        self.__dict__["_symbolic_member"] = symbolic_member

    def __call__(self, value, *a, **k):
        t = type(value)
        if t is SymEnumMember and value.enum is self._real:
            return value
        if t is SymBool:
            value = SymInt(*lift(value))
            t = SymInt
        if t is not SymInt:
            return self._real(value, *a, **k)
        c = ctx()
        members = list(self._real)
        if self._symbolic_member:
            inset = z3.Or(*[value.e == int(m.value) for m in members])
            if c.branch(inset):
                return SymEnumMember(self._real, value)
            raise ValueError(f"<symbolic> is not a valid {self._real.__name__}")
        for m in members:
            if c.branch(value.e == int(m.value)):
                return m
        raise ValueError(f"<symbolic> is not a valid {self._real.__name__}")

    def __getattr__(self, name):
        return getattr(self._real, name)

    def __iter__(self):
        return iter(self._real)

    def __instancecheck__(self, obj):
        return S.sym_isinstance(obj, self._real)

    def __repr__(self):
        return f"<EnumModel {self._real.__name__}>"


# ======================================================================================
# uuid / math
class UUIDModel:
    """Callable stand-in for uuid.UUID."""

    _real = _uuid.UUID

    def __new__(cls, hex=None, bytes=None, bytes_le=None, fields=None, int=None, version=None, **k):
        if type(bytes) is SymBytes:
            if bytes.is_concrete():
                return _uuid.UUID(bytes=bytes.concrete())
            return SymUUID(bytes=bytes)
        if type(int) is SymInt:
            return SymUUID(bytes=int.to_bytes(16, "big"))
        return _uuid.UUID(hex=hex, bytes=bytes, bytes_le=bytes_le, fields=fields, int=int, version=version, **k)


class MathModel:
    def __getattr__(self, name):
        return getattr(_math, name)

    @staticmethod
    def isfinite(x):
        return model_isfinite(x)


def model_isfinite(x):
    t = type(x)
    if t is SymFloat:
        return x.isfinite()
    if t in (SymInt, SymBool, SymRatio):
        return True
    f = getattr(t, "__isfinite__", None)
    if f is not None:
        return f(x)
    return _math.isfinite(x)


def model_isnan(x):
    if type(x) is SymFloat:
        return SymBool(z3.fpIsNaN(x.fp))
    if type(x) in (SymInt, SymBool, SymRatio):
        return False
    return _math.isnan(x)


# ======================================================================================
# datetime.  Generic over the integer proxy family: arithmetic is done with Python
# operators on whatever integer proxies are held (kv.sym.SymInt or kv.rmode.RInt), and
# int/int true division is whatever that family defines (exact SymRatio vs RFloat).
US = 1_000_000
TD_MIN_US = -999999999 * 86400 * US
TD_MAX_US = (999999999 * 86400 + 86399) * US + 999999
DT_MIN_S = -62135596800  # 0001-01-01T00:00:00Z
DT_MAX_S = 253402300799  # 9999-12-31T23:59:59Z
_EPOCH = _dt.datetime(1970, 1, 1, tzinfo=_dt.timezone.utc)


def is_proxy(x):
    return type(x).__module__.startswith("kv.")


def _truth(r):
    return r if type(r) is bool else bool(r)


def td_us(x):
    """timedelta-like -> exact microseconds (int | proxy)"""
    if type(x) is TD:
        return x.us
    if _isinstance(x, _dt.timedelta):
        return (x.days * 86400 + x.seconds) * US + x.microseconds
    return None


class TD:
    """Model of datetime.timedelta: exact integer microseconds."""
    __class__ = property(lambda self: _dt.timedelta)  # C-level isinstance() / `match` class patterns see the represented type

    __slots__ = ("us",)
    min = _dt.timedelta.min
    max = _dt.timedelta.max
    resolution = _dt.timedelta.resolution

    def __new__(cls, days=0, seconds=0, microseconds=0, milliseconds=0, minutes=0, hours=0, weeks=0):
        parts = ((days, 86400 * US), (seconds, US), (microseconds, 1), (milliseconds, 1000), (minutes, 60 * US),
                 (hours, 3600 * US), (weeks, 7 * 86400 * US))
        if not any(is_proxy(v) for v, _ in parts):
            return _dt.timedelta(days=days, seconds=seconds, microseconds=microseconds, milliseconds=milliseconds,
                                 minutes=minutes, hours=hours, weeks=weeks)
        us = 0
        for v, k in parts:
            if type(v) is int and v == 0:
                continue
            if type(v) is float:
                if not v.is_integer():
                    raise Unsupported("timedelta() mixing symbolic and fractional float arguments")
                v = int(v)
            if getattr(type(v), "_is_float_proxy", False):
                # CPython: a float argument is scaled to microseconds and rounded half-even
                us = us + (v * k).__round__()
                continue
            if type(v) is SymBool:
                v = SymInt(*lift(v))
            us = us + v * k
        return TD._from_us(us)

    @staticmethod
    def _from_us(us, check=True):
        if not is_proxy(us):
            return _dt.timedelta(microseconds=us)
        if check:
            if not _truth(us >= TD_MIN_US) or not _truth(us <= TD_MAX_US):
                raise OverflowError("days=<symbolic>; must have magnitude <= 999999999")
        o = object.__new__(TD)
        o.us = us
        return o

    def total_seconds(self):
        return self.us / US

    @property
    def days(self): return self.us // (86400 * US)
    @property
    def seconds(self): return (self.us // US) % 86400
    @property
    def microseconds(self): return self.us % US

    def _cmp(self, o, f):
        ou = td_us(o)
        if ou is None:
            return NotImplemented
        return f(self.us, ou)

    def __eq__(self, o):
        r = self._cmp(o, lambda a, b: a == b)
        return False if r is NotImplemented else r
    def __ne__(self, o):
        r = self._cmp(o, lambda a, b: a != b)
        return True if r is NotImplemented else r
    def __lt__(self, o): return self._cmp(o, lambda a, b: a < b)
    def __le__(self, o): return self._cmp(o, lambda a, b: a <= b)
    def __gt__(self, o): return self._cmp(o, lambda a, b: a > b)
    def __ge__(self, o): return self._cmp(o, lambda a, b: a >= b)
    def __hash__(self): raise Unsupported("hash of symbolic timedelta")
    def __bool__(self): return _truth(self.us != 0)

    def __add__(self, o):
        ou = td_us(o)
        if ou is None:
            if _isinstance(o, _dt.datetime):
                return DT.of_real(o) + self
            return NotImplemented
        return TD._from_us(self.us + ou)
    __radd__ = __add__

    def __sub__(self, o):
        ou = td_us(o)
        if ou is None:
            return NotImplemented
        return TD._from_us(self.us - ou)

    def __rsub__(self, o):
        ou = td_us(o)
        if ou is None:
            if _isinstance(o, _dt.datetime):
                return DT.of_real(o) + (-self)
            return NotImplemented
        return TD._from_us(ou - self.us)

    def __neg__(self): return TD._from_us(-self.us)
    def __pos__(self): return self
    def __abs__(self): return TD._from_us(abs(self.us))

    def __mul__(self, o):
        if type(o) is int or (is_proxy(o) and S.proxy_python_type(o) is int):
            return TD._from_us(self.us * o)
        raise Unsupported("timedelta * non-int")
    __rmul__ = __mul__

    def __floordiv__(self, o):
        ou = td_us(o)
        if ou is not None:
            if is_proxy(ou):
                raise Unsupported("timedelta // symbolic timedelta")
            return self.us // ou
        if type(o) is int:
            return TD._from_us(self.us // o)
        return NotImplemented

    def __rfloordiv__(self, o):
        raise Unsupported("timedelta // symbolic timedelta")

    def __mod__(self, o):
        ou = td_us(o)
        if ou is not None and not is_proxy(ou):
            return TD._from_us(self.us % ou)
        raise Unsupported("timedelta % symbolic")

    def __divmod__(self, o):
        return self // o, self % o

    def __truediv__(self, o):
        ou = td_us(o)
        if ou is not None:
            if is_proxy(ou):
                raise Unsupported("timedelta / symbolic timedelta")
            return self.us / ou
        if type(o) is int:
            # CPython rounds the microsecond quotient half-even
            return TD._from_us((self.us / o).__round__())
        raise Unsupported("timedelta / float")

    def __repr__(self): return "<TD>"
    def __format__(self, s): return "<TD>"


class TZ:
    """Fixed-offset tzinfo model."""
    __class__ = property(lambda self: _dt.tzinfo)  # C-level isinstance() / `match` class patterns see the represented type

    __slots__ = ("offset_s", "real")

    def __init__(self, offset_s=0, real=None):
        self.offset_s = offset_s
        self.real = real

    def utcoffset(self, dt):
        if is_proxy(self.offset_s):
            return TD._from_us(self.offset_s * US, check=False)
        return _dt.timedelta(seconds=self.offset_s)

    def dst(self, dt): return None
    def tzname(self, dt): return "<TZ>"

    def __eq__(self, o):
        if type(o) is TZ:
            return self.offset_s == o.offset_s
        if _isinstance(o, _dt.timezone):
            return self.offset_s == int(o.utcoffset(None).total_seconds())
        return NotImplemented

    def __hash__(self): raise Unsupported("hash of tz model")
    def __repr__(self): return "<TZ>"


def _tz_of(tz):
    """tz argument -> TZ model | None"""
    if tz is None:
        return None
    if type(tz) is TZ:
        return tz
    if _isinstance(tz, _dt.timezone):
        off = tz.utcoffset(None)
        return TZ(off.days * 86400 + off.seconds, tz)
    raise Unsupported(f"tzinfo of type {type(tz).__name__} has no model")


class DT:
    """Model of an aware datetime: UTC epoch seconds + microsecond + fixed offset."""
    __class__ = property(lambda self: _dt.datetime)  # C-level isinstance() / `match` class patterns see the represented type

    __slots__ = ("secs", "micro", "tz")
    min = _dt.datetime.min
    max = _dt.datetime.max
    resolution = _dt.datetime.resolution

    def __new__(cls, *a, **k):
        if any(is_proxy(v) for v in a) or any(is_proxy(v) for v in k.values()):
            raise Unsupported("datetime(...) constructor with symbolic fields")
        return _dt.datetime(*a, **k)

    @staticmethod
    def _make(secs, micro, tz, check="ValueError"):
        o = object.__new__(DT)
        o.secs, o.micro, o.tz = secs, micro, tz
        if check:
            off = tz.offset_s if tz is not None else 0
            local = secs + off
            if not _truth(local >= DT_MIN_S) or not _truth(local <= DT_MAX_S):
                if check == "ValueError":
                    raise ValueError("year <symbolic> is out of range")
                raise OverflowError("date value out of range")
        return o

    # -- constructors
    @classmethod
    def fromtimestamp(cls, t, tz=None):
        if not is_proxy(t):
            real_tz = tz.real if type(tz) is TZ else tz
            return _dt.datetime.fromtimestamp(t, real_tz)
        if tz is None:
            raise Unsupported("naive local-time fromtimestamp of a symbolic value")
        tzm = _tz_of(tz)
        sp = getattr(type(t), "split_seconds", None)
        if sp is not None:
            secs, micro = t.split_seconds()
        else:
            if type(t) is SymBool:
                t = SymInt(*lift(t))
            secs, micro = t, 0
        # CPython converts to time_t first: absurd magnitudes are OverflowError
        if not _truth(secs >= -(2**62)) or not _truth(secs <= 2**62):
            raise OverflowError("timestamp out of range for platform time_t")
        return DT._make(secs, micro, tzm, check="ValueError")

    @classmethod
    def utcfromtimestamp(cls, t):
        if not is_proxy(t):
            return _dt.datetime.utcfromtimestamp(t)
        raise Unsupported("utcfromtimestamp (naive) of a symbolic value")

    @classmethod
    def now(cls, tz=None): return _dt.datetime.now(tz)
    @classmethod
    def utcnow(cls): return _dt.datetime.utcnow()
    @classmethod
    def fromisoformat(cls, s): return _dt.datetime.fromisoformat(s)
    @classmethod
    def strptime(cls, *a): return _dt.datetime.strptime(*a)
    @classmethod
    def combine(cls, *a, **k): return _dt.datetime.combine(*a, **k)

    @staticmethod
    def of_real(d: _dt.datetime):
        if d.tzinfo is None:
            raise Unsupported("naive datetime mixed with symbolic datetime")
        off = d.utcoffset()
        delta = d - _EPOCH
        secs = delta.days * 86400 + delta.seconds
        return DT._make(secs, delta.microseconds, TZ(off.days * 86400 + off.seconds), check=None)

    # -- accessors
    @property
    def microsecond(self): return self.micro
    @property
    def tzinfo(self): return self.tz

    def utcoffset(self):
        return None if self.tz is None else self.tz.utcoffset(self)

    def timestamp(self):
        if type(self.micro) is int and self.micro == 0:
            return (self.secs * US) / US
        return (self.secs * US + self.micro) / US

    def replace(self, **k):
        secs, micro, tz = self.secs, self.micro, self.tz
        for key, v in k.items():
            if key == "microsecond":
                if is_proxy(v):
                    if not _truth(v >= 0) or not _truth(v <= 999999):
                        raise ValueError("microsecond must be in 0..999999")
                elif not (0 <= v <= 999999):
                    raise ValueError("microsecond must be in 0..999999")
                micro = v
            elif key == "tzinfo":
                # wall-clock fields are kept, the instant moves
                old = tz.offset_s if tz is not None else 0
                ntz = _tz_of(v)
                new = ntz.offset_s if ntz is not None else 0
                secs = secs + old - new
                tz = ntz
            else:
                raise Unsupported(f"datetime.replace({key}=...) has no model")
        return DT._make(secs, micro, tz, check=None)

    def astimezone(self, tz=None):
        if tz is None:
            raise Unsupported("astimezone(local)")
        return DT._make(self.secs, self.micro, _tz_of(tz), check="OverflowError")

    # -- arithmetic
    def _us(self):
        return self.secs * US + self.micro

    def __sub__(self, o):
        if type(o) is DT:
            return TD._from_us(self._us() - o._us(), check=False)
        if _isinstance(o, _dt.datetime):
            return self - DT.of_real(o)
        ou = td_us(o)
        if ou is not None:
            return self._shift(-ou if not is_proxy(ou) else (0 - ou))
        return NotImplemented

    def __rsub__(self, o):
        if _isinstance(o, _dt.datetime):
            return DT.of_real(o) - self
        return NotImplemented

    def __add__(self, o):
        ou = td_us(o)
        if ou is None:
            return NotImplemented
        return self._shift(ou)

    __radd__ = __add__

    def _shift(self, us):
        tot = self._us() + us
        secs = tot // US
        micro = tot % US
        return DT._make(secs, micro, self.tz, check="OverflowError")

    # -- comparisons
    def _key(self, o):
        if type(o) is DT:
            return o
        if _isinstance(o, _dt.datetime):
            return DT.of_real(o)
        return None

    def _cmp(self, o, f_lex):
        k = self._key(o)
        if k is None:
            return NotImplemented
        if (self.tz is None) != (k.tz is None):
            raise TypeError("can't compare offset-naive and offset-aware datetimes")
        return f_lex(self, k)

    def __eq__(self, o):
        k = self._key(o)
        if k is None:
            return False
        if (self.tz is None) != (k.tz is None):
            return False
        return _and(self.secs == k.secs, self.micro == k.micro)

    def __ne__(self, o):
        return _not(self.__eq__(o))

    def __lt__(self, o): return self._cmp(o, lambda a, b: _or(a.secs < b.secs, _and(a.secs == b.secs, a.micro < b.micro)))
    def __le__(self, o): return self._cmp(o, lambda a, b: _or(a.secs < b.secs, _and(a.secs == b.secs, a.micro <= b.micro)))
    def __gt__(self, o): return self._cmp(o, lambda a, b: _or(a.secs > b.secs, _and(a.secs == b.secs, a.micro > b.micro)))
    def __ge__(self, o): return self._cmp(o, lambda a, b: _or(a.secs > b.secs, _and(a.secs == b.secs, a.micro >= b.micro)))
    def __hash__(self): raise Unsupported("hash of symbolic datetime")
    def __repr__(self): return "<DT>"
    def __format__(self, s): return "<DT>"


def _e(x):
    return z3.BoolVal(x) if type(x) is bool else x.e


def _and(a, b):
    if type(a) is bool:
        return b if a else False
    if type(b) is bool:
        return a if b else False
    return SymBool(z3.And(a.e, b.e))


def _or(a, b):
    if type(a) is bool:
        return True if a else b
    if type(b) is bool:
        return True if b else a
    return SymBool(z3.Or(a.e, b.e))


def _not(a):
    if type(a) is bool:
        return not a
    return SymBool(z3.Not(a.e))


class DatetimeModule:
    """Stand-in for the `datetime` module object."""

    UTC = _dt.UTC
    timezone = _dt.timezone
    tzinfo = _dt.tzinfo
    date = _dt.date
    time = _dt.time
    MINYEAR = _dt.MINYEAR
    MAXYEAR = _dt.MAXYEAR
    datetime = DT
    timedelta = TD


S._PROXY_BASE.update({TD: _dt.timedelta, DT: _dt.datetime, TZ: _dt.tzinfo, BufferViewModel: memoryview})
for _m, _r in ((TD, _dt.timedelta), (DT, _dt.datetime), (UUIDModel, _uuid.UUID), (BytesIOModel, _io.BytesIO)):
    S._MODEL_TO_REAL[id(_m)] = _r
S._UNWRAP_HOOKS.append(lambda cls: cls._real if type(cls) is EnumModel else None)


# ======================================================================================
# CRC-32C as an uninterpreted fold with the per-step injectivity facts
_STEP = z3.Function("crc_step", z3.BitVecSort(32), z3.BitVecSort(8), z3.BitVecSort(32))
_FIN = z3.Function("crc_fin", z3.BitVecSort(32), z3.BitVecSort(32))
_INIT = z3.BitVec("crc_init", 32)
_BLOBSTEP = z3.Function("crc_blob", z3.BitVecSort(32), z3.IntSort(), z3.BitVecSort(W), z3.BitVecSort(W), z3.BitVecSort(32))


def crc_model(data, value=0):
    """crc32c(data): fin(step(...step(init, b0)..., bn)); opaque payloads fold through an
    uninterpreted per-payload step (identified by root, offset and length)."""
    import crc32c as _real

    if type(data) is not SymBytes:
        return _real.crc32c(data, value)
    if data.is_concrete():
        return _real.crc32c(data.concrete(), value)
    if not (type(value) is int and value == 0):
        raise Unsupported("incremental crc32c with symbolic data")
    c = ctx()
    steps = []  # list of ("b", term) | ("blob", key terms)
    hs = [_INIT]
    for it in data._nz():
        if type(it) is Blob:
            off, _ = lift(it.off)
            ln, _ = lift(it.length)
            hs.append(_BLOBSTEP(hs[-1], z3.IntVal(it.root.id), off, ln))
            steps.append(("blob", it))
        else:
            b = S.byte_term(it)
            hs.append(_STEP(hs[-1], b))
            steps.append(("b", b))
    out = _FIN(hs[-1])
    for (osteps, ohs, oout) in c.crc_chains:
        if _len(osteps) != _len(steps):
            continue
        if any(a[0] != b[0] or (a[0] == "blob" and a[1] is not b[1]) for a, b in zip(steps, osteps)):
            continue
        for i in range(_len(steps)):
            hd = hs[i] != ohs[i]
            if steps[i][0] == "b":
                bd = steps[i][1] != osteps[i][1]
                c.add(z3.Implies(z3.Xor(hd, bd), hs[i + 1] != ohs[i + 1]))
            else:
                c.add(z3.Implies(hd, hs[i + 1] != ohs[i + 1]))
        c.add((hs[-1] != ohs[-1]) == (out != oout))
    c.crc_chains.append((steps, hs, out))
    return SymInt(z3.ZeroExt(W - 32, out), 33)


class CRCModule:
    crc32c = staticmethod(crc_model)
    crc32 = staticmethod(crc_model)


class LruModel:
    """Stand-in for a functools.lru_cache / functools.cache wrapper held by a kio module.

    Calls whose arguments are all ordinary Python values go to the real wrapper (its cache persists as in a real
    process).  A call with a symbolic argument cannot be hashed; the memo lookup is then made explicit: the
    arguments are compared with the keys seen earlier ON THIS PATH with Python's own `==` (so 0.0 hits -0.0, as
    in the real cache), forking on the outcome; on a miss the wrapped function runs and the entry is recorded.
    The per-path key list is emptied at every path start."""

    __slots__ = ("real", "fn", "entries", "__weakref__")

    def __init__(self, real, fn):
        self.real = real
        self.fn = fn
        self.entries = []
        from . import core as _core

        _core.PATH_START_HOOKS.append(self.entries.clear)

    @staticmethod
    def _symbolic(a):
        from . import sym as _S

        return any(_S.proxy_python_type(x) is not None for x in a)

    def __call__(self, *a, **kw):
        if kw:
            if self._symbolic(tuple(kw.values())) or self._symbolic(a):
                raise Unsupported("memoised call with symbolic keyword arguments")
            return self.real(*a, **kw)
        if not self._symbolic(a) and not any(self._symbolic(k) for k, _ in self.entries):
            v = self.real(*a)
            # remember value-like concrete keys of this path: a later symbolic argument may compare equal to one
            if len(self.entries) < 64 and a and all(type(x) in (int, float, bool, str, bytes, _dt.timedelta, _dt.datetime, _uuid.UUID) for x in a):
                self.entries.append((a, v))
            return v
        for k, v in self.entries:
            if len(k) == len(a):
                hit = True
                for x, y in zip(a, k):
                    if x is y:
                        continue
                    r = x == y
                    if not (r if type(r) is bool else bool(r)):
                        hit = False
                        break
                if hit:
                    return v
        v = self.fn(*a)
        self.entries.append((a, v))
        return v

    def cache_clear(self):
        self.entries.clear()
        return self.real.cache_clear()

    def cache_info(self):
        return self.real.cache_info()

    def cache_parameters(self):
        return self.real.cache_parameters()

    @property
    def __wrapped__(self):
        return self.fn

    def __getattr__(self, name):
        return getattr(self.real, name)

    def __repr__(self):
        return f"<LruModel of {getattr(self.fn, '__qualname__', self.fn)!r}>"


def operator_index(x):
    """operator.index for proxies: an integer proxy is its own index (the real function would force a concrete value)"""
    import operator as _op

    t = type(x)
    if t is SymInt or (t.__module__ in ("kv.rmode", "kv.fmode") and S.proxy_python_type(x) is int):
        return x
    if t is SymBool:
        return SymInt(*lift(x))
    if S.proxy_python_type(x) is not None:
        raise TypeError(f"'{S.proxy_python_type(x).__name__}' object cannot be interpreted as an integer")
    return _op.index(x)


class OperatorModel:
    """stand-in for the `operator` module in kio modules"""

    index = staticmethod(operator_index)

    def __getattr__(self, name):
        import operator as _op

        return getattr(_op, name)
