"""kv.kref - an independent reference implementation of the Kafka wire format for kio's
entity classes, written from the protocol guide, KIP-482 (tagged fields) and KIP-893
(nullable structs) - NOT from kio.serial.  It does its own introspection of the
dataclasses (typing.get_args/get_origin on field.type, field.metadata, field.default,
class variables) and shares no code with kio.serial._introspect/_implicit_defaults.

It works on concrete values and on the kv.sym proxies alike: its output is a list of
items (int byte | SymInt byte | Blob).

kio conventions that are part of the oracle because the properties state them: durations
and timestamps are int32/int64 milliseconds, null timestamp = -1, null UUID = all-zero,
error code = int16, RequestHeader.client_id always legacy nullable string, nullable struct
marker -1/1, tagged section = non-default fields in ascending tag order.
"""
from __future__ import annotations

import dataclasses
import datetime
import struct
import types
import typing
import uuid

import z3

from . import sym as S
from .core import Unsupported
from .models import DT, TD, td_us
from .sym import Blob, SymBool, SymBytes, SymEnumMember, SymFloat, SymInt, SymStr, SymUUID

NoneType = type(None)
EPOCH = datetime.datetime(1970, 1, 1, tzinfo=datetime.timezone.utc)
INTS = {"int8": (1, True), "int16": (2, True), "int32": (4, True), "int64": (8, True),
        "uint8": (1, False), "uint16": (2, False), "uint32": (4, False), "uint64": (8, False)}


def _t(r):
    return r if type(r) is bool else bool(r)


# ---- primitives -----------------------------------------------------------------------
def uvarint(n):
    """unsigned base-128 varint, least significant group first, minimal length"""
    out = []
    while True:
        b = n & 0x7F
        n = n >> 7
        if _t(n != 0):
            out.append(b | 0x80)
        else:
            out.append(b)
            return out


def be(n, width, signed):
    """two's complement big-endian; n must be in range (the caller's obligation)"""
    if type(n) is SymBool:
        n = SymInt(*S.lift(n))
    if type(n) is SymEnumMember:
        n = n.value
    if type(n) is SymInt:
        items = [S.byte_of(z3.Extract(8 * i + 7, 8 * i, n.e)) for i in range(width)]
        items.reverse()
        return items
    return list(int(n).to_bytes(width, "big", signed=signed))


def zigzag(n, bits):
    return (n << 1) ^ (n >> (bits - 1))


def payload_items(v):
    """bytes-like / str-like -> (items, length)"""
    if type(v) is SymStr:
        v = v.data
    if isinstance(v, str):
        v = v.encode("utf-8")
    if type(v) is SymBytes:
        return list(v.items), v.sym_len()
    v = bytes(v)
    return list(v), len(v)


_limits = None  # when a list: collects z3 terms "this length does not fit its legacy prefix"


def _limit(n, hi):
    if _limits is not None:
        r = n > hi
        if type(r) is bool:
            if r:
                _limits.append(z3.BoolVal(True))
        else:
            _limits.append(r.e)


def enc_string(v, flexible):
    if v is None:
        return uvarint(0) if flexible else be(-1, 2, True)
    items, n = payload_items(v)
    if not flexible:
        _limit(n, 2**15 - 1)
    return (uvarint(n + 1) if flexible else be(n, 2, True)) + items


def enc_bytes(v, flexible):
    if v is None:
        return uvarint(0) if flexible else be(-1, 4, True)
    items, n = payload_items(v)
    if not flexible:
        _limit(n, 2**31 - 1)
    return (uvarint(n + 1) if flexible else be(n, 4, True)) + items


def ms_of_timedelta(v):
    if type(v).__name__ == "RawMillis":
        return int(v)
    us = td_us(v)
    if us is None:
        raise Unsupported(f"reference: duration of type {type(v).__name__}")
    return us // 1000


def ms_of_datetime(v):
    if type(v).__name__ == "RawMillis":
        return int(v)
    if type(v) is DT:
        return v.secs * 1000 + v.micro // 1000
    d = v - EPOCH
    return (d.days * 86400 + d.seconds) * 1000 + d.microseconds // 1000


def enc_prim(kt, v, flexible):
    if kt in INTS:
        w, s = INTS[kt]
        return be(v, w, s)
    if kt == "bool":
        if type(v) is SymBool:
            return [S.byte_of(z3.If(v.e, z3.BitVecVal(1, 8), z3.BitVecVal(0, 8)))]
        return [1 if v else 0]
    if kt == "float64":
        if type(v) is SymFloat:
            return [S.byte_of(z3.Extract(63 - 8 * i, 56 - 8 * i, v.bv)) for i in range(8)]
        return list(struct.pack(">d", v))
    if kt == "string":
        return enc_string(v, flexible)
    if kt in ("bytes", "records"):
        return enc_bytes(v, flexible)
    if kt == "uuid":
        if v is None:
            return [0] * 16
        return list(SymBytes.of(v.bytes).items)
    if kt == "error_code":
        return be(v.value, 2, True)
    if kt == "timedelta_i32":
        return be(ms_of_timedelta(v), 4, True)
    if kt == "timedelta_i64":
        return be(ms_of_timedelta(v), 8, True)
    if kt == "datetime_i64":
        if v is None:
            return be(-1, 8, True)
        return be(ms_of_datetime(v), 8, True)
    raise Unsupported(f"reference: unknown kafka_type {kt!r}")


def enc_array(items, enc_item, flexible):
    if items is None:
        return uvarint(0) if flexible else be(-1, 4, True)
    out = uvarint(len(items) + 1) if flexible else be(len(items), 4, True)
    for it in items:
        out = out + enc_item(it)
    return out


# ---- class introspection (independent of kio.serial) -------------------------------------
def split_annotation(tp):
    """-> (is_array, nullable, inner, item_nullable) using only typing introspection"""
    nullable = False
    origin = typing.get_origin(tp)
    if origin in (types.UnionType, typing.Union):
        args = [a for a in typing.get_args(tp) if a is not NoneType]
        nullable = len(args) != len(typing.get_args(tp))
        if len(args) != 1:
            raise Unsupported(f"reference: union annotation {tp!r}")
        tp = args[0]
        origin = typing.get_origin(tp)
    if origin is tuple:
        targs = typing.get_args(tp)
        if len(targs) != 2 or targs[1] is not Ellipsis:
            raise Unsupported(f"reference: tuple annotation {tp!r}")
        inner = targs[0]
        item_nullable = False
        if typing.get_origin(inner) in (types.UnionType, typing.Union):
            a = [x for x in typing.get_args(inner) if x is not NoneType]
            item_nullable = True
            inner = a[0]
        return True, nullable, inner, item_nullable
    return False, nullable, tp, False


_hints_cache = {}


def field_types(cls):
    """field name -> resolved annotation (schema modules use `from __future__ import annotations`)"""
    r = _hints_cache.get(cls)
    if r is None:
        r = typing.get_type_hints(cls)
        _hints_cache[cls] = r
    return r


def field_type(cls, f):
    tp = f.type
    if isinstance(tp, str):
        tp = field_types(cls)[f.name]
    return tp


ZERO = {"int8": 0, "int16": 0, "int32": 0, "int64": 0, "uint8": 0, "uint16": 0, "uint32": 0, "uint64": 0,
        "float64": 0.0, "string": "", "bytes": b"", "bool": False,
        "timedelta_i32": datetime.timedelta(0), "timedelta_i64": datetime.timedelta(0),
        "datetime_i64": EPOCH, "uuid": None}


def implicit_default(cls, f):
    """KIP-482: an absent tagged field takes the declared default, else the zero value of
    its type (for a struct: the struct of defaults)."""
    if f.default is not dataclasses.MISSING:
        return f.default
    is_array, nullable, inner, _ = split_annotation(field_type(cls, f))
    if is_array:
        return ()
    if dataclasses.is_dataclass(inner):
        return inner(**{g.name: implicit_default(inner, g) for g in dataclasses.fields(inner)})
    kt = f.metadata.get("kafka_type")
    if kt == "uuid":
        return uuid.UUID(int=0)
    if kt in ZERO:
        return ZERO[kt]
    raise Unsupported(f"reference: no implicit default for {cls.__name__}.{f.name}")


class Extras:
    """Wire-level choices beyond the instance: which tagged fields are sent although they
    hold their default (`force`: set of id(entity)+field name), and unknown tagged fields
    to add to an entity occurrence (`unknown`: id(entity) -> list of (tag, size, Blob))."""

    def __init__(self):
        self.force = set()
        self.unknown = {}
        self.keep = []  # keeps entity objects alive so ids stay unique


def encode(x, extras: Extras | None = None, limits=None) -> list:
    """Reference encoding of entity x.  limits: optional list that receives the terms
    'a legacy length prefix cannot represent this length' met on the way."""
    global _limits
    if limits is not None:
        old = _limits
        _limits = limits
        try:
            return encode(x, extras)
        finally:
            _limits = old
    cls = type(x)
    flexible = cls.__flexible__
    out = []
    tagged = []
    for f in dataclasses.fields(cls):
        v = getattr(x, f.name)
        if "tag" in f.metadata:
            tagged.append((f.metadata["tag"], f, v))
        else:
            out = out + _enc_nested(cls, f, v, flexible, False, extras)
    if not flexible:
        if tagged:
            raise Unsupported("reference: tagged field in a non-flexible class")
        return out
    present = []  # (tag, items)
    for tag, f, v in sorted(tagged, key=lambda t: t[0]):
        forced = extras is not None and (id(x), f.name) in extras.force
        if not forced:
            d = implicit_default(cls, f)
            if _t(v == d):
                continue
        body = _enc_nested(cls, f, v, flexible, True, extras)
        n = SymBytes(body).sym_len()
        present.append((tag, uvarint(tag) + uvarint(n) + body))
    if extras is not None:
        for (t, size, blob) in extras.unknown.get(id(x), ()):
            entry = (t, uvarint(t) + uvarint(size) + [blob])
            # insert in ascending tag order
            pos = len(present)
            for k, (kt_, _) in enumerate(present):
                if _t(t < kt_):
                    pos = k
                    break
            present.insert(pos, entry)
    out = out + uvarint(len(present))
    for _, items in present:
        out = out + items
    return out


def _enc_nested(cls, f, v, flexible, tagged, extras):
    is_array, nullable, inner, item_nullable = split_annotation(field_type(cls, f))
    kt = f.metadata.get("kafka_type")
    if cls.__name__ == "RequestHeader" and f.name == "client_id":
        return enc_string(v, False)
    if dataclasses.is_dataclass(inner):
        if is_array:
            return enc_array(v, lambda it: encode(it, extras), flexible)
        if nullable and not tagged:
            return [0xFF] if v is None else [1] + encode(v, extras)
        return encode(v, extras)
    if is_array:
        return enc_array(v, lambda it: enc_prim(kt, it, flexible), flexible)
    return enc_prim(kt, v, flexible)


# ---- comparison of two item sequences ------------------------------------------------------
def items_equal(a, b):
    """-> (z3 Bool | bool, description of first structural mismatch | None)"""
    a = SymBytes(a)._nz()
    b = SymBytes(b)._nz()
    if len(a) != len(b):
        return False, f"length/structure differs: {len(a)} vs {len(b)} items"
    conj = []
    for k, (x, y) in enumerate(zip(a, b)):
        bx, by = type(x) is Blob, type(y) is Blob
        if bx != by:
            return False, f"item {k}: payload vs byte"
        if bx:
            if x is y:
                continue
            if x.root is y.root:
                for r in (x.off == y.off, x.length == y.length):
                    if type(r) is bool:
                        if not r:
                            return False, f"item {k}: different slice of the same payload"
                    else:
                        conj.append(r.e)
            else:
                return False, f"item {k}: different payloads"
        else:
            if type(x) is int and type(y) is int:
                if x != y:
                    return False, f"item {k}: byte {x} vs {y}"
            else:
                conj.append(S.byte_term(x) == S.byte_term(y))
    if not conj:
        return True, None
    return (z3.And(*conj) if len(conj) > 1 else conj[0]), None


# ---- record batches (magic 2), from the message-format section of the Kafka documentation --------
def ite(cond, a, b):
    if type(cond) is bool:
        return a if cond else b
    ae, al, ah = S.lift3(a)
    be_, bl, bh = S.lift3(b)
    return S.mk(z3.If(cond.e, ae, be_), min(al, bl), max(ah, bh))


def zigzag_spec(n):
    """zig-zag as the arithmetic definition: 2n for n >= 0, -2n-1 for n < 0"""
    return ite(n >= 0, n * 2, n * -2 - 1)


def svarint(n):
    return uvarint(zigzag_spec(n))


def vbytes(v):
    if v is None:
        return svarint(-1)
    items, n = payload_items(v)
    return svarint(n) + items


def ms_floor(ts):
    """whole milliseconds since the epoch (floor) of an aware datetime / DT model"""
    return ms_of_datetime(ts)


def record_items(r, base_ts, base_off):
    body = be(r.attributes, 1, True) + svarint(ms_floor(r.timestamp) - base_ts) + svarint(r.offset - base_off) + vbytes(r.key) + vbytes(r.value) + svarint(len(r.headers))
    for h in r.headers:
        body = body + vbytes(h.key) + vbytes(h.value)
    return svarint(SymBytes(body).sym_len()) + body


def sym_max(values):
    m = values[0]
    for v in values[1:]:
        m = ite(v > m, v, m)
    return m


def batch_items(nb, crc_fn):
    """reference encoding of a NewRecordBatch-like object; crc_fn: items -> int | SymInt"""
    recs = nb.records
    base_off = recs[0].offset
    mss = [ms_floor(r.timestamp) for r in recs]
    base_ts = mss[0]
    max_ts = sym_max(mss)
    post = (be(nb.attributes, 2, True) + be(recs[-1].offset - base_off, 4, True) + be(base_ts, 8, True) + be(max_ts, 8, True) + be(nb.producer_id, 8, True)
            + be(nb.producer_epoch, 2, True) + be(nb.base_sequence, 4, True) + be(len(recs), 4, True))
    for r in recs:
        post = post + record_items(r, base_ts, base_off)
    crc = crc_fn(post)
    n = SymBytes(post).sym_len()
    return be(base_off, 8, True) + be(n + 9, 4, True) + be(nb.partition_leader_epoch, 4, True) + [2] + be(crc, 4, False) + post


def full_batch_items(b, crc_fn=None, crc=None, magic=2):
    """reference encoding of a complete (broker-side) batch given all header fields"""
    post = (be(b["attributes"], 2, True) + be(b["last_offset_delta"], 4, True) + be(b["base_timestamp"], 8, True) + be(b["max_timestamp"], 8, True)
            + be(b["producer_id"], 8, True) + be(b["producer_epoch"], 2, True) + be(b["base_sequence"], 4, True) + be(len(b["records"]), 4, True))
    for r in b["records"]:
        body = (be(r["attributes"], 1, True) + svarint(r["timestamp_delta"]) + svarint(r["offset_delta"]) + vbytes(r["key"]) + vbytes(r["value"])
                + svarint(len(r["headers"])))
        for hk, hv in r["headers"]:
            body = body + vbytes(hk) + vbytes(hv)
        post = post + svarint(SymBytes(body).sym_len()) + body
    c = crc if crc is not None else crc_fn(post)
    n = SymBytes(post).sym_len()
    return be(b["base_offset"], 8, True) + be(n + 9, 4, True) + be(b["partition_leader_epoch"], 4, True) + [magic] + be(c, 4, False) + post, post
