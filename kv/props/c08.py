"""C08 - header schema and request/response pairing follow the Kafka rules.

(i)   rule kernel: the real codegen.header_schema.get_header_schema_import runs on a stand-in
      message schema with symbolic api key, version and flexibleVersions range: every
      integer at once (polymorphic lemma, replayed concretely);
(ii)  shipped classes: facts (type, key, version, flexible, header class) of all payload
      classes are loaded into z3 and the solver searches for a row that breaks the rule, and
      for a request/response pair of one (api, version) that differs in key or flexibility
      (finite table: the solver is a search procedure here, nothing more);
(iii) inverse maps: the real kio.index.load_response_from_request / load_request_from_response
      run on a stand-in carrying symbolic __api_key__/__version__ (dict lookups by hash-fork
      over all keys/versions +-2): for every (key, version) of the table the composition
      returns the class it started from; outside it the documented errors are raised."""
from __future__ import annotations

import sys
import time

import z3

from .. import shapes
from ..core import Stats, Unsupported, Violation, explore
from ..sym import SymBool, sym_var

_REPO = __import__("os").environ.get("KIO_REPO", "/repo")
if _REPO not in sys.path:
    sys.path.insert(0, _REPO)

I63 = (-(2**63), 2**63)
REQ = {0: "kio.schema.request_header.v0.header", 1: "kio.schema.request_header.v1.header", 2: "kio.schema.request_header.v2.header"}
RESP = {0: "kio.schema.response_header.v0.header", 1: "kio.schema.response_header.v1.header"}


def _standin(I, kind):
    from codegen.parser import MessageSchema
    from codegen.versions import VersionRange

    key = I.int("key", *I63)
    flo = I.int("flex_low", -5, 100)
    fk = I.choose("flex_high_kind", ["inf", "int", "none"])
    if fk == "inf":
        fr = VersionRange(flo, float("inf"))
    elif fk == "int":
        fr = VersionRange(flo, I.int("flex_high", -5, 100))
    else:
        fr = VersionRange(float("inf"), float("-inf"))
    schema = MessageSchema.construct(name="X", validVersions=VersionRange(0, 100), flexibleVersions=fr, fields=(), apiKey=key, type=kind)
    return schema, key, fr, fk, flo


def _flexible(I, fr, fk, flo, version):
    if fk == "none":
        return False
    if fk == "inf":
        return flo <= version
    return I.all([flo <= version, version <= fr.high])


def _which(s, table):
    for v, mod in table.items():
        if mod in s:
            return v
    return None


def lemma_request_rule(I):
    from codegen.header_schema import get_header_schema_import

    schema, key, fr, fk, flo = _standin(I, "request")
    version = I.int("version", *I63)
    flexible = _flexible(I, fr, fk, flo, version)
    r = get_header_schema_import(schema, version)
    v = _which(r, REQ)
    I.check("names_a_request_header_class", v is not None and "RequestHeader" in r)
    special = I.all([key == 7, version == 0])
    if v == 0:
        I.check("v0_only_for_ControlledShutdown_v0", special)
    elif v == 2:
        I.check("v2_iff_flexible", I.all([I.not_(special), flexible]))
    else:
        I.check("v1_otherwise", I.all([I.not_(special), I.not_(flexible)]))


def lemma_response_rule(I):
    from codegen.header_schema import get_header_schema_import

    schema, key, fr, fk, flo = _standin(I, "response")
    version = I.int("version", *I63)
    flexible = _flexible(I, fr, fk, flo, version)
    r = get_header_schema_import(schema, version)
    v = _which(r, RESP)
    I.check("names_a_response_header_class", v is not None and "ResponseHeader" in r)
    if v == 1:
        I.check("v1_iff_flexible_and_not_ApiVersions", I.all([flexible, key != 18]))
    else:
        I.check("v0_otherwise", I.any([I.not_(flexible), key == 18]))


def lemma_non_message_has_no_header(I):
    from codegen.header_schema import get_header_schema_import
    from codegen.parser import DataSchema, HeaderSchema
    from codegen.versions import VersionRange

    version = I.int("version", *I63)
    for cls, t in ((HeaderSchema, "header"), (DataSchema, "data")):
        s = cls.construct(name="X", validVersions=VersionRange(0, 3), flexibleVersions=VersionRange(0, float("inf")), fields=(), type=t)
        I.check("no_header_for_header_and_data_schemas", get_header_schema_import(s, version) == "")


LEMMAS = [("request_header_rule", lemma_request_rule), ("response_header_rule", lemma_response_rule),
          ("non_message_schemas", lemma_non_message_has_no_header)]


# ---- (ii) facts ---------------------------------------------------------------------------------
def payload_rows():
    rows = []
    for c in shapes.all_entity_classes():
        if getattr(c, "__api_key__", None) is None or getattr(c, "__header_schema__", None) is None or c.__type__.name not in ("request", "response"):
            continue  # reported by every_request_and_response_class_advertises_api_key_and_header_schema
        parts = c.__module__.split(".")
        h = c.__header_schema__
        hv = int(h.__module__.split(".")[3][1:])
        rows.append(dict(cls=c, api=parts[2], version=int(c.__version__), key=int(c.__api_key__), flexible=bool(c.__flexible__),
                         type=c.__type__.name, header_kind=h.__module__.split(".")[2], header_version=hv, header_name=h.__name__,
                         header_flexible=bool(h.__flexible__)))
    return rows


def facts_queries(rows):
    """-> (list of (clause, ok, detail), n_queries, solver_s)"""
    t0 = time.perf_counter()
    n = len(rows)
    i = z3.Int("row")
    def col(name, f):
        fn = z3.Function(name, z3.IntSort(), z3.IntSort())
        return fn, [fn(k) == f(r) for k, r in enumerate(rows)]
    key, ak = col("key", lambda r: r["key"])
    ver, av = col("version", lambda r: r["version"])
    flx, af = col("flexible", lambda r: int(r["flexible"]))
    isreq, ar = col("is_request", lambda r: int(r["type"] == "request"))
    hv, ah = col("header_version", lambda r: r["header_version"])
    hk, ahk = col("header_is_request_header", lambda r: int(r["header_kind"] == "request_header" and r["header_name"] == "RequestHeader"))
    hr, ahr = col("header_is_response_header", lambda r: int(r["header_kind"] == "response_header" and r["header_name"] == "ResponseHeader"))
    api_ids = {a: k for k, a in enumerate(sorted({r["api"] for r in rows}))}
    api, aa = col("api", lambda r: api_ids[r["api"]])
    base = ak + av + af + ar + ah + ahk + ahr + aa
    results = []
    nq = 0
    # a request/response class that advertises no API key or no header schema at all must not drop out of the table
    silent = [shapes.class_id(c) for c in shapes.all_entity_classes()
              if getattr(getattr(c, "__type__", None), "name", None) in ("request", "response")
              and (getattr(c, "__api_key__", None) is None or getattr(c, "__header_schema__", None) is None)]
    results.append(("every_request_and_response_class_advertises_api_key_and_header_schema", not silent, "; ".join(silent[:3])))

    def query(name, bad, describe):
        nonlocal nq
        s = z3.Solver()
        s.add(*base)
        s.add(i >= 0, i < n)
        s.add(bad)
        nq += 1
        r = s.check()
        if r == z3.unsat:
            results.append((name, True, None))
        elif r == z3.sat:
            k = s.model().eval(i).as_long()
            results.append((name, False, describe(k, s.model())))
        else:
            results.append((name, None, "solver unknown"))

    special = z3.And(key(i) == 7, ver(i) == 0)
    rule_req = z3.If(special, 0, z3.If(flx(i) == 1, 2, 1))
    rule_resp = z3.If(key(i) == 18, 0, z3.If(flx(i) == 1, 1, 0))
    query("request_header_follows_rule", z3.And(isreq(i) == 1, z3.Or(hk(i) != 1, hv(i) != rule_req)),
          lambda k, m: f"{shapes.class_id(rows[k]['cls'])}: header {rows[k]['header_kind']} v{rows[k]['header_version']}")
    query("response_header_follows_rule", z3.And(isreq(i) == 0, z3.Or(hr(i) != 1, hv(i) != rule_resp)),
          lambda k, m: f"{shapes.class_id(rows[k]['cls'])}: header {rows[k]['header_kind']} v{rows[k]['header_version']}")
    j = z3.Int("row2")
    s_pair = z3.And(j >= 0, j < n, api(i) == api(j), ver(i) == ver(j), isreq(i) == 1, isreq(j) == 0)
    query("request_and_response_share_key_and_flexibility", z3.And(s_pair, z3.Or(key(i) != key(j), flx(i) != flx(j))),
          lambda k, m: f"{shapes.class_id(rows[k]['cls'])} vs {shapes.class_id(rows[m.eval(j).as_long()]['cls'])}")
    query("every_request_has_a_response", z3.And(isreq(i) == 1, z3.Not(z3.Or(*[z3.And(api(i) == api_ids[r["api"]], ver(i) == r["version"]) for r in rows if r["type"] == "response"]))),
          lambda k, m: shapes.class_id(rows[k]["cls"]))
    query("every_response_has_a_request", z3.And(isreq(i) == 0, z3.Not(z3.Or(*[z3.And(api(i) == api_ids[r["api"]], ver(i) == r["version"]) for r in rows if r["type"] == "request"]))),
          lambda k, m: shapes.class_id(rows[k]["cls"]))
    return results, nq, time.perf_counter() - t0


# ---- (iii) inverse maps ---------------------------------------------------------------------------
class StandIn:
    def __init__(self, key, version):
        self.__api_key__ = key
        self.__version__ = version


class Inverse:
    """load_response_from_request / load_request_from_response on symbolic key, version"""

    def __init__(self, direction, key_lo, key_hi, truth):
        self.direction = direction
        self.key_lo, self.key_hi = key_lo, key_hi
        self.truth = truth  # (key, version, type) -> class
        self._cache = {}

    def run(self, c):
        import kio.index as ki

        key = self.key_lo if self.key_lo == self.key_hi else sym_var("key", self.key_lo, self.key_hi)[0]
        ver, _ = sym_var("version", -(2**15), 2**15 - 1)
        c.notes["kv"] = (key, ver)
        fwd = ki.load_response_from_request if self.direction == "req->resp" else ki.load_request_from_response
        back = ki.load_request_from_response if self.direction == "req->resp" else ki.load_response_from_request
        t_to = "response" if self.direction == "req->resp" else "request"
        t_from = "request" if self.direction == "req->resp" else "response"
        known_keys = sorted({k for (k, v, t) in self.truth})
        try:
            cls = fwd(StandIn(key, ver))
        except ki.UnknownAPIKey:
            c.outcome = "UnknownAPIKey"
            if "nokey" not in self._cache:
                self._cache["nokey"] = z3.And(*[key.e != k for k in known_keys]) if type(key) is not int else key not in known_keys
            return [("UnknownAPIKey_iff_key_not_in_table", self._cache["nokey"])]
        except ki.UnknownEntity:
            c.outcome = "UnknownEntity"
            if "noent" not in self._cache:
                pairs = [(k, v) for (k, v, t) in self.truth if t == t_to]
                ke = key.e if type(key) is not int else z3.BitVecVal(key, 128)
                ve = ver.e if type(ver) is not int else z3.BitVecVal(ver, 128)
                self._cache["noent"] = z3.And(z3.Or(*[ke == k for k in known_keys]), *[z3.Not(z3.And(ke == k, ve == v)) for k, v in pairs])
            return [("UnknownEntity_iff_key_known_and_pair_absent", self._cache["noent"])]
        except Unsupported:
            raise
        except Exception as e:
            raise Violation("only_documented_errors", {"exception": type(e).__name__, "msg": str(e)[:200]})
        c.outcome = "class"
        obl = [("result_carries_key_and_version", (key == int(cls.__api_key__)) & (ver == int(cls.__version__)) if False else _both(key == int(cls.__api_key__), ver == int(cls.__version__))),
               ("result_is_the_paired_type", cls.__type__.name == t_to),
               ("result_is_the_class_found_by_package_walk", self.truth.get((int(cls.__api_key__), int(cls.__version__), t_to)) is cls)]
        try:
            orig = back(cls)
        except Exception as e:
            raise Violation("mappings_are_mutually_inverse", {"exception": type(e).__name__})
        obl.append(("mappings_are_mutually_inverse", self.truth.get((int(cls.__api_key__), int(cls.__version__), t_from)) is orig
                    and fwd(orig) is cls))
        return obl

    def witness(self, c, model, clause, info):
        key, ver = c.notes["kv"]
        return {"direction": self.direction, "key": shapes.concretise(key, model), "version": shapes.concretise(ver, model), "info": info}


def _both(a, b):
    from ..models import _and

    return _and(a, b)


def truth_table():
    t = {}
    for c in shapes.all_entity_classes():
        if hasattr(c, "__api_key__") and c.__type__.name in ("request", "response"):
            t[(int(c.__api_key__), int(c.__version__), c.__type__.name)] = c
    return t


_truth = None


def task_inverse(args):
    global _truth
    direction, lo, hi = args
    if _truth is None:
        _truth = truth_table()
    truth = _truth
    keys = sorted({k for (k, v, t) in truth})
    vers = sorted({v for (k, v, t) in truth})
    # the key is concrete or lies in a gap without table keys: only versions need hints
    hints = sorted({x + d for x in vers for d in (-2, -1, 0, 1, 2)} | ({lo} if lo == hi else set()))
    st = Stats()
    explore(Inverse(direction, lo, hi, truth), max_paths=20000, stats=st, hints=hints, deadline=time.time() + 600)
    return {"stats": st.to_json(), "slice": [lo, hi], "direction": direction}


def check(tier):
    from .. import install, lemma, runner

    t0 = time.time()
    install.install()
    import kio.index  # noqa: F401  (before forking)

    total = Stats()
    inconclusive = []
    # (i)
    ltasks = [("kv.props.c08", name, False, {}) for name, _ in LEMMAS]
    rows_l = []
    for r in runner.pool_map(lemma.task_lemma, ltasks):
        st = Stats.from_json(r["stats"])
        total.merge(st)
        rows_l.append({"lemma": r["lemma"], "paths": st.paths, "queries": st.queries})
        if st.paths == 0:
            inconclusive.append(f"lemma {r['lemma']} vacuous")
    # (ii)
    rows = payload_rows()
    res, nq, fs = facts_queries(rows)
    cex = list(total.cex)
    for name, ok, detail in res:
        total.clauses[name] = [1, 1 if ok else 0]
        total.queries += 1
        if ok is None:
            inconclusive.append(f"facts query {name}: solver unknown")
        elif not ok:
            cex.append({"clause": name, "witness": {"facts": name, "detail": detail}, "info": {}})
    total.solver_s += fs
    # (iii) split the key domain into slices so that 16 workers share the hash forks
    global _truth
    _truth = truth = truth_table()
    keys = sorted({k for (k, v, t) in truth})
    # every known key is its own slice (key concrete, version symbolic); the gaps between known
    # keys and the two unbounded ends are slices with a symbolic key (no table key inside)
    slices = []
    prev = I63[0] - 1
    for k in keys:
        if k - 1 >= prev + 1:
            slices.append((prev + 1, k - 1))
        slices.append((k, k))
        prev = k
    slices.append((prev + 1, I63[1]))
    tasks = []
    for d in ("req->resp", "resp->req"):
        for a, b in slices:
            tasks.append((d, a, b))
    inv_paths = 0
    for r in runner.pool_map(task_inverse, tasks):
        st = Stats.from_json(r["stats"])
        inv_paths += st.paths
        total.merge(st)
        if st.capped:
            inconclusive.append(f"inverse-map slice {r['slice']} hit the path cap")
    cex = cex + [c for c in total.cex if c not in cex]
    if total.unsupported:
        inconclusive.append(f"{total.unsupported} path(s) could not be followed: {list(total.unsupported_msgs.items())[:4]}")
    cov = runner.mc_coverage(
        total, functions=["codegen.header_schema.get_header_schema_import/_get_request_header_schema/_get_response_header_schema", "codegen.versions.VersionRange.matches",
                          "kio.index.load_response_from_request/load_request_from_response/load_request_schema/load_response_schema/_name_from_key/_get_entity_path",
                          "class attributes __header_schema__/__api_key__/__flexible__/__version__ of every payload class (facts)"],
        bounds={"rule_kernel": "api key and version over [-2^63, 2^63], flexibleVersions low in [-5,100] with high = inf | int in [-5,100] | none",
                "facts_rows": len(rows), "inverse_maps": "key over [-2^63, 2^63], version over int16; dict lookups by hash-fork over all keys/versions +-2"},
        outside=["api keys / versions that are not int (bool, float)", "facts are a finite table: the solver only searches it"],
        rule="states = completed symbolic paths of the kernels and of kio.index plus one per facts query",
        extra={"kernel_lemmas": rows_l, "facts_queries": [{"query": n, "holds": ok, "detail": d} for n, ok, d in res], "inverse_map_paths": inv_paths,
               "payload_classes": len(rows)})
    samples = rows_l + [{"facts_query": res[0][0], "rows": len(rows)}]
    return runner.finish("C08", tier, t0, level="model_checking", coverage=cov, assumptions=["A2", "A7", "A8"], cex=cex, inconclusive=inconclusive, samples=samples)
