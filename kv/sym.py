"""kv.sym - symbolic proxy values (bit-vector mode) and byte-stream models.

SymInt   : z3 BitVec(128) term + conservative signed bit-width.  Python's unbounded
           semantics are preserved by width tracking: an operation whose result could
           need more than 127 bits aborts the path as Unsupported (never wraps).
SymBool  : z3 Bool; __bool__ is the fork point.
SymRatio : exact rational num/den (den a positive constant) produced by int/int true
           division - the *exact-rational abstraction* of kio's float time arithmetic used
           at entity level (the float behaviour itself is decided in kv.rmode).
SymFloat : IEEE-754 double given by its 64-bit pattern (no arithmetic; equality = fp.eq).
SymBytes : sequence of items: int (concrete byte) | SymInt (symbolic byte) | Blob.
Blob     : opaque payload with (possibly symbolic) length and an identity.
SymStr   : text whose UTF-8 encoding is a SymBytes.
"""
from __future__ import annotations

import builtins
import itertools

import uuid as _uuid_mod

import z3

from .core import PathAbort, Unsupported, ctx

W = 128
_len = builtins.len
_isinstance = builtins.isinstance
_range = builtins.range


def bvval(v: int):
    return z3.BitVecVal(v, W)


def _cbits(c: int) -> int:
    return c.bit_length() + 1


def _chk(bits: int) -> int:
    if bits > W - 1:
        raise Unsupported("integer width bound (127 bits) exceeded")
    return bits


def lift(x):
    """-> (term, bits) or raise TypeError"""
    t = type(x)
    if t is SymInt:
        return x.e, x.bits
    if t is bool:
        x = int(x)
        t = int
    if t is int or (_isinstance(x, int) and t not in _PROXY_BASE):
        x = int(x)
        if _cbits(x) > W - 1:
            raise Unsupported("constant wider than 127 bits")
        return z3.BitVecVal(x, W), _cbits(x)
    if t is SymBool:
        return z3.If(x.e, bvval(1), bvval(0)), 2
    if t is SymEnumMember:
        return x.value.e, x.value.bits
    raise TypeError(f"cannot lift {t.__name__}")


class SymBool:
    __class__ = property(lambda self: bool)  # C-level isinstance() / `match` class patterns see the represented type
    __slots__ = ("e",)

    def __init__(self, e):
        self.e = e

    def __bool__(self):
        return ctx().branch(self.e)

    def __eq__(self, o):
        if type(o) is SymBool:
            return SymBool(self.e == o.e)
        if type(o) is bool:
            return SymBool(self.e if o else z3.Not(self.e))
        if type(o) is int:
            if o == 1:
                return SymBool(self.e)
            if o == 0:
                return SymBool(z3.Not(self.e))
            return False
        if type(o) is SymInt:
            return o.__eq__(self)
        return NotImplemented

    def __ne__(self, o):
        r = self.__eq__(o)
        if r is NotImplemented:
            return r
        return SymBool(z3.Not(r.e)) if type(r) is SymBool else (not r)

    def __hash__(self):
        return hash(bool(self))

    def __index__(self):
        return 1 if bool(self) else 0

    def __int__(self):
        return SymInt(*lift(self))

    def __and__(self, o):
        if type(o) is SymBool:
            return SymBool(z3.And(self.e, o.e))
        if type(o) is bool:
            return self if o else False
        return NotImplemented

    __rand__ = __and__

    def __or__(self, o):
        if type(o) is SymBool:
            return SymBool(z3.Or(self.e, o.e))
        if type(o) is bool:
            return True if o else self
        return NotImplemented

    __ror__ = __or__

    def __invert__(self):
        return SymInt(*lift(self)).__invert__()

    def to_bytes(self, n=1, order="big", *, signed=False):
        return SymInt(*lift(self)).to_bytes(n, order, signed=signed)

    def __repr__(self):
        return "<SymBool>"

    def __format__(self, spec):
        return "<SymBool>"


def sbool(x) -> SymBool:
    return x if type(x) is SymBool else SymBool(z3.BoolVal(bool(x)))


def floor_div_bv(a, abits, d: int):
    """floor(a / d) for a constant d > 0 on a 128-bit term, computed at reduced width."""
    assert d > 0
    w = min(W, max(abits, _cbits(d)) + 2)
    aa = z3.Extract(w - 1, 0, a) if w < W else a
    dd = z3.BitVecVal(d, w)
    q = aa / dd  # signed division, truncating toward zero
    r = z3.SRem(aa, dd)
    q = z3.If(z3.And(r != 0, aa < 0), q - 1, q)
    return z3.SignExt(W - w, q) if w < W else q


def _b2r(bits):
    return -(1 << (bits - 1)), (1 << (bits - 1)) - 1


def _r2b(lo, hi):
    return max(lo.bit_length(), hi.bit_length()) + 1


def lift3(x):
    """-> (term, lo, hi) or raise TypeError"""
    t = type(x)
    if t is SymInt:
        return x.e, x.lo, x.hi
    if t is bool:
        x = int(x)
        t = int
    if t is int or (_isinstance(x, int) and t not in _PROXY_BASE):
        x = int(x)
        if _cbits(x) > W - 1:
            raise Unsupported("constant wider than 127 bits")
        return z3.BitVecVal(x, W), x, x
    if t is SymBool:
        return z3.If(x.e, bvval(1), bvval(0)), 0, 1
    if t is SymEnumMember:
        return x.value.e, x.value.lo, x.value.hi
    raise TypeError(f"cannot lift {t.__name__}")


def mk(e, lo, hi):
    """SymInt with interval [lo, hi]; a point interval is returned as a Python int."""
    if lo == hi:
        return lo
    if lo > hi:
        raise PathAbort("empty interval")
    return SymInt(e, None, lo, hi)


class SymInt:
    """z3 BitVec(128) term with a sound interval [lo, hi] (Python ints).  The interval is
    implied by the constraints of the leaves it was computed from; it decides most range
    comparisons without the solver and bounds the width (Python ints never wrap: a result
    that may need more than 127 bits aborts the path as Unsupported)."""
    __class__ = property(lambda self: int)  # C-level isinstance() / `match` class patterns see the represented type

    __slots__ = ("e", "lo", "hi", "lin")

    def __init__(self, e, bits=None, lo=None, hi=None):
        self.e = e
        self.lin = None  # ({atom id: (atom SymInt, coeff)}, const): exact linear form of this value (algebraic provenance)
        if lo is None:
            lo, hi = _b2r(bits)
        if lo < -(1 << (W - 2)) or hi >= (1 << (W - 2)):
            raise Unsupported("integer width bound (127 bits) exceeded")
        self.lo = lo
        self.hi = hi

    @property
    def bits(self):
        return _r2b(self.lo, self.hi)

    # ---- arithmetic ------------------------------------------------------------
    def __add__(self, o):
        if type(o) is int and o == 0:
            return self
        try:
            oe, ol, oh = lift3(o)
        except TypeError:
            return NotImplemented
        return _with_lin(mk(self.e + oe, self.lo + ol, self.hi + oh), _lin_add(_lin(self), _lin(o), 1))

    __radd__ = __add__

    def __sub__(self, o):
        try:
            oe, ol, oh = lift3(o)
        except TypeError:
            return NotImplemented
        return _with_lin(mk(self.e - oe, self.lo - oh, self.hi - ol), _lin_add(_lin(self), _lin(o), -1))

    def __rsub__(self, o):
        try:
            oe, ol, oh = lift3(o)
        except TypeError:
            return NotImplemented
        return _with_lin(mk(oe - self.e, ol - self.hi, oh - self.lo), _lin_add(_lin(o), _lin(self), -1))

    def __mul__(self, o):
        if type(o) is SymRatio:
            return NotImplemented
        if type(o) is float:
            return SymRatio(self, 1) * o
        try:
            oe, ol, oh = lift3(o)
        except TypeError:
            return NotImplemented
        ps = (self.lo * ol, self.lo * oh, self.hi * ol, self.hi * oh)
        lo_, hi_ = min(ps), max(ps)
        w = max(lo_.bit_length(), hi_.bit_length()) + 2
        if w < W - 8:
            # multiply at the width the result needs (cheaper to bit-blast), then sign-extend
            prod = z3.SignExt(W - w, z3.Extract(w - 1, 0, self.e) * z3.Extract(w - 1, 0, oe))
        else:
            prod = self.e * oe
        r = mk(prod, lo_, hi_)
        if type(o) is int:
            if o == 1:
                return self
            return _with_lin(r, _lin_scale(_lin(self), o))
        return r

    __rmul__ = __mul__

    def __neg__(self): return _with_lin(mk(-self.e, -self.hi, -self.lo), _lin_scale(_lin(self), -1))
    def __pos__(self): return self
    def __abs__(self):
        if self.lo >= 0:
            return self
        if self.hi <= 0:
            return -self
        return mk(z3.If(self.e < 0, -self.e, self.e), 0, max(-self.lo, self.hi))
    def __invert__(self): return mk(~self.e, ~self.hi, ~self.lo)

    def _bitop(self, o, f, kind):
        if type(o) is int and o == 0 and kind in ("or", "xor"):
            return self
        try:
            oe, ol, oh = lift3(o)
        except TypeError:
            return NotImplemented
        if self.lo >= 0 and ol >= 0:
            if kind == "and":
                lo, hi = 0, min(self.hi, oh)
            else:
                lo, hi = 0, (1 << max(self.hi.bit_length(), oh.bit_length())) - 1
        elif kind == "and" and (ol >= 0 or self.lo >= 0):
            lo, hi = 0, (oh if ol >= 0 else self.hi)
        else:
            lo, hi = _b2r(max(_r2b(self.lo, self.hi), _r2b(ol, oh)))
        return mk(f(self.e, oe), lo, hi)

    def __and__(self, o): return self._bitop(o, lambda a, b: a & b, "and")
    __rand__ = __and__
    def __or__(self, o): return self._bitop(o, lambda a, b: a | b, "or")
    __ror__ = __or__
    def __xor__(self, o): return self._bitop(o, lambda a, b: a ^ b, "xor")
    __rxor__ = __xor__

    def __lshift__(self, o):
        if type(o) is int and o >= 0:
            # a left shift is a multiplication by 2^o: keeps the linear form (canonical term)
            return _with_lin(mk(self.e << o, self.lo << o, self.hi << o), _lin_scale(_lin(self), 1 << o))
        raise Unsupported("symbolic shift amount")

    def __rshift__(self, o):
        if type(o) is int and o >= 0:
            return mk(self.e >> o, self.lo >> o, self.hi >> o)  # arithmetic shift on signed terms
        raise Unsupported("symbolic shift amount")

    def __rlshift__(self, o): raise Unsupported("symbolic shift amount")
    def __rrshift__(self, o): raise Unsupported("symbolic shift amount")

    def _qr(self, d):
        """floor quotient / remainder by a positive constant as fresh variables tied by
        x == q*d + r, 0 <= r < d (a constant multiplier is far cheaper to bit-blast than a divider)"""
        terms, const = _lin(self)
        if self.lin is not None:
            # (d*A + B) // d == A + B // d and (d*A + B) % d == B % d for every integer A
            div = {i: (a, k) for i, (a, k) in terms.items() if k % d == 0}
            rest = {i: (a, k) for i, (a, k) in terms.items() if k % d != 0}
            if div or (const // d != 0 and rest):
                A = const // d
                for a, k in div.values():
                    A = A + a * (k // d)
                B = const % d
                for a, k in rest.values():
                    B = B + a * k
                qb, rb = divmod(B, d)
                return A + qb, rb
            if len(rest) == 1 and const == 0:
                (a, k), = rest.values()
                if k > 0 and d % k == 0 and (a.lin is None):
                    q, r = divmod(a, d // k)
                    return q, r * k
        c = ctx()
        cache = c.notes.setdefault("symint_qr", {})
        key = (self.e.get_id(), d)
        if key not in cache:
            ql, qh = self.lo // d, self.hi // d
            q, _ = sym_var(c.name("q"), ql, qh) if ql != qh else (ql, None)
            r, _ = sym_var(c.name("r"), 0, d - 1) if d > 1 else (0, None)
            qe = lift3(q)[0]
            re_ = lift3(r)[0]
            w = max(self.lo.bit_length(), self.hi.bit_length(), (qh * d + d).bit_length(), (ql * d).bit_length()) + 2
            if w < W - 8:
                ex = lambda t: z3.Extract(w - 1, 0, t)
                c.add(ex(self.e) == ex(qe) * z3.BitVecVal(d, w) + ex(re_))
            else:
                c.add(self.e == qe * bvval(d) + re_)
            cache[key] = (q, r, self.e)
        return cache[key][0], cache[key][1]

    def __floordiv__(self, o):
        if type(o) is int and o > 0:
            if o == 1:
                return self
            return self._qr(o)[0]
        if type(o) is int and o < 0:
            return (-self).__floordiv__(-o)
        if type(o) is int:
            raise ZeroDivisionError("integer division or modulo by zero")
        raise Unsupported("division by a symbolic value")

    def __mod__(self, o):
        if type(o) is int and o > 0:
            ql, qh = self.lo // o, self.hi // o
            if ql == qh:
                return mk(self.e - bvval(ql * o), self.lo - ql * o, self.hi - ql * o)
            return self._qr(o)[1]
        raise Unsupported("modulo by a symbolic or non-positive value")

    def __divmod__(self, o):
        return self // o, self % o

    def __truediv__(self, o):
        if type(o) in (int, float) and o > 0 and float(o).is_integer():
            return SymRatio(self, int(o))
        raise Unsupported("true division by symbolic/non-positive/non-integral value")

    def __rtruediv__(self, o): raise Unsupported("division by a symbolic value")
    def __rfloordiv__(self, o): raise Unsupported("division by a symbolic value")
    def __rmod__(self, o): raise Unsupported("modulo by a symbolic value")
    def __pow__(self, o, m=None): raise Unsupported("pow on symbolic int")
    def __rpow__(self, o): raise Unsupported("pow on symbolic int")

    # ---- comparisons -----------------------------------------------------------
    def _cmp(self, o, op):
        to = type(o)
        if to is SymRatio:
            return NotImplemented
        if to is float:
            if o != o:
                return op == "ne"
            if o == float("inf"):
                return op in ("lt", "le", "ne")
            if o == float("-inf"):
                return op in ("gt", "ge", "ne")
            return _CMP_PY[op](SymRatio(self, 1), o)
        try:
            oe, ol, oh = lift3(o)
        except TypeError:
            return NotImplemented
        lo, hi = self.lo, self.hi
        if op == "lt":
            if hi < ol: return True
            if lo >= oh: return False
            return SymBool(self.e < oe)
        if op == "le":
            if hi <= ol: return True
            if lo > oh: return False
            return SymBool(self.e <= oe)
        if op == "gt":
            if lo > oh: return True
            if hi <= ol: return False
            return SymBool(self.e > oe)
        if op == "ge":
            if lo >= oh: return True
            if hi < ol: return False
            return SymBool(self.e >= oe)
        if op == "eq":
            if hi < ol or lo > oh: return False
            return SymBool(self.e == oe)
        if hi < ol or lo > oh: return True
        return SymBool(self.e != oe)

    def __eq__(self, o): return self._cmp(o, "eq")
    def __ne__(self, o): return self._cmp(o, "ne")
    def __lt__(self, o): return self._cmp(o, "lt")
    def __le__(self, o): return self._cmp(o, "le")
    def __gt__(self, o): return self._cmp(o, "gt")
    def __ge__(self, o): return self._cmp(o, "ge")

    def __bool__(self):
        if self.lo > 0 or self.hi < 0:
            return True
        return ctx().branch(self.e != 0)

    def __hash__(self):
        # dict/set lookup: fork "value is one of the hints" / "is none of them"; inside the hint
        # set fork over the concrete values, outside use one representative (sound iff every
        # integer key of the table that is indexed is among the hints - assumption A2).
        c = ctx()
        hints = [v for v in c.hash_hints if self.lo <= v <= self.hi]
        if hints:
            key = ("hash_inset", self.e.get_id())
            cache = c.notes.setdefault("hash_terms", {})
            inset = cache.get(key)
            if inset is None:
                inset = z3.Or(*[self.e == v for v in hints])
                cache[key] = inset
            if c.branch(inset):
                return hash(c.concretise(self.e, limit=len(hints) + 2))
        return hash(c.recorded(lambda: c.get_model().eval(self.e, model_completion=True).as_signed_long()))

    def __index__(self):
        return ctx().concretise(self.e)

    def __int__(self):
        return self.__index__()

    def __round__(self, nd=None):
        return self

    def __trunc__(self):
        return self

    def bit_length(self):
        raise Unsupported("bit_length of symbolic int")

    def to_bytes(self, length=1, byteorder="big", *, signed=False):
        if not (type(length) is int):
            raise Unsupported("to_bytes with symbolic length")
        lo, hi = (-(1 << (8 * length - 1)), (1 << (8 * length - 1)) - 1) if signed else (0, (1 << (8 * length)) - 1)
        if not (lo <= self.lo and self.hi <= hi):
            if self.hi < lo or self.lo > hi or not ctx().branch(z3.And(self.e >= lo, self.e <= hi)):
                raise OverflowError("int too big to convert")
        bs = [byte_of(z3.Extract(8 * i + 7, 8 * i, self.e)) for i in _range(length)]
        if byteorder == "big":
            bs.reverse()
        return SymBytes(bs)

    def conjugate(self): return self
    @property
    def real(self): return self
    @property
    def imag(self): return 0
    @property
    def numerator(self): return self
    @property
    def denominator(self): return 1

    def __format__(self, spec): return "<SymInt>"
    def __repr__(self): return "<SymInt>"
    def __str__(self): return "<SymInt>"


def _lin(x):
    if type(x) is int:
        return {}, x
    if type(x) is bool:
        return {}, int(x)
    if type(x) is SymInt:
        if x.lin is not None:
            return x.lin
        return {x.e.get_id(): (x, 1)}, 0
    return None


def _lin_add(a, b, sign):
    if a is None or b is None:
        return None
    terms = dict(a[0])
    for i, (atom, k) in b[0].items():
        old = terms.get(i)
        nk = (old[1] if old else 0) + sign * k
        if nk == 0:
            terms.pop(i, None)
        else:
            terms[i] = (atom, nk)
    if _len(terms) > 8:
        return None
    return terms, a[1] + sign * b[1]


def _lin_scale(a, k):
    if a is None or k == 0:
        return None
    return {i: (atom, c * k) for i, (atom, c) in a[0].items()}, a[1] * k


def _with_lin(r, lin):
    if type(r) is SymInt and lin is not None and lin[0]:
        if not (_len(lin[0]) == 1 and lin[1] == 0 and next(iter(lin[0].values()))[1] == 1):
            r.lin = lin
            # canonical term: the same linear form always yields the same z3 expression, whatever the
            # order of the additions that produced it (two differently associated sums of the same
            # lengths then compare equal syntactically instead of by bit-blasting adders)
            e = None
            for i in sorted(lin[0]):
                atom, k = lin[0][i]
                t = atom.e if k == 1 else atom.e * bvval(k)
                e = t if e is None else e + t
            if lin[1] != 0:
                e = e + bvval(lin[1])
            r.e = e
    return r


import operator as _op

_CMP_PY = {"lt": _op.lt, "le": _op.le, "gt": _op.gt, "ge": _op.ge, "eq": _op.eq, "ne": _op.ne}


def sym_var(name, lo, hi, signed_width=None):
    """A fresh symbolic integer ranging over exactly [lo, hi].  When [lo, hi] is the full
    range of a two's-complement/unsigned width the variable is that narrow bit-vector
    extended to 128 bits and no constraint is needed; otherwise range constraints are
    added on a narrow variable."""
    c = ctx()
    if lo >= 0:
        w = max(hi.bit_length(), 1)
        v = z3.BitVec(name, w)
        e = z3.ZeroExt(W - w, v)
        if hi != (1 << w) - 1:
            c.add(z3.ULE(v, z3.BitVecVal(hi, w)))
        if lo != 0:
            c.add(z3.UGE(v, z3.BitVecVal(lo, w)))
    else:
        w = max((-lo - 1).bit_length(), hi.bit_length()) + 1
        v = z3.BitVec(name, w)
        e = z3.SignExt(W - w, v)
        if lo != -(1 << (w - 1)):
            c.add(v >= z3.BitVecVal(lo, w))
        if hi != (1 << (w - 1)) - 1:
            c.add(v <= z3.BitVecVal(hi, w))
    return SymInt(e, None, lo, hi), v


def byte_of(bv8):
    e = z3.simplify(bv8)
    if z3.is_bv_value(e):
        return e.as_long()
    return SymInt(z3.ZeroExt(W - 8, e), None, 0, 255)


def byte_term(b):
    """item -> 8-bit z3 term"""
    if type(b) is SymInt:
        return z3.Extract(7, 0, b.e)
    return z3.BitVecVal(b, 8)


def int_from_bytes(items, byteorder="big", signed=False):
    items = list(items)
    if any(type(b) is Blob for b in items):
        items = SymBytes(items).expanded()
    n = _len(items)
    if n == 0:
        return 0
    if all(type(b) is int for b in items):
        return int.from_bytes(bytes(items), byteorder, signed=signed)
    if byteorder == "big":
        items = items[::-1]
    v = byte_term(items[0])
    for b in items[1:]:
        v = z3.Concat(byte_term(b), v)
    if 8 * n >= W:
        raise Unsupported("integer wider than 127 bits")
    e = z3.simplify(z3.SignExt(W - 8 * n, v) if signed else z3.ZeroExt(W - 8 * n, v))
    if z3.is_bv_value(e):
        return e.as_signed_long()
    if signed:
        return SymInt(e, None, -(1 << (8 * n - 1)), (1 << (8 * n - 1)) - 1)
    return SymInt(e, None, 0, (1 << (8 * n)) - 1)


class SymRatio:
    """Exact rational num/den, den a positive Python int.  Stands for a Python float in
    the exact-rational abstraction (assumption A5q); produced only by int/int division."""
    __class__ = property(lambda self: float)  # C-level isinstance() / `match` class patterns see the represented type

    __slots__ = ("num", "den")
    _is_float_proxy = True

    def __init__(self, num, den: int):
        self.num = num  # SymInt | int
        self.den = den

    def __mul__(self, o):
        if type(o) in (int, float) and float(o).is_integer() and o > 0:
            import math

            k = int(o)
            g = math.gcd(k, self.den)
            return SymRatio(self.num * (k // g), self.den // g)
        raise Unsupported("float product with non-integral/symbolic factor")

    __rmul__ = __mul__

    def __truediv__(self, o):
        if type(o) in (int, float) and float(o).is_integer() and o > 0:
            return SymRatio(self.num, self.den * int(o))
        raise Unsupported("float division by symbolic value")

    def __neg__(self):
        return SymRatio(-self.num, self.den)

    def _cmp(self, o, op):
        f = _CMP_PY[op]
        if type(o) is SymRatio:
            return f(self.num * o.den, o.num * self.den)
        if type(o) is float:
            if o != o or o in (float("inf"), float("-inf")):
                raise Unsupported("compare with nan/inf")
            from fractions import Fraction

            fr = Fraction(o)
            return f(self.num * fr.denominator, fr.numerator * self.den)
        try:
            lift3(o)
        except TypeError:
            return NotImplemented
        return f(self.num, o * self.den)

    def __eq__(self, o): return self._cmp(o, "eq")
    def __ne__(self, o): return self._cmp(o, "ne")
    def __lt__(self, o): return self._cmp(o, "lt")
    def __le__(self, o): return self._cmp(o, "le")
    def __gt__(self, o): return self._cmp(o, "gt")
    def __ge__(self, o): return self._cmp(o, "ge")
    def __hash__(self): raise Unsupported("hash of symbolic float")

    def floor(self):
        return self.num // self.den

    def __trunc__(self):
        fl = self.floor()
        if type(self.num) is int:
            import math

            return math.trunc(self.num / self.den) if False else (self.num // self.den if self.num >= 0 else -((-self.num) // self.den))
        ne, nl, nh = lift3(self.num)
        fe, fl_lo, fl_hi = lift3(fl)
        if nl >= 0:
            return fl
        exact = (fe * bvval(self.den)) == ne
        return mk(z3.If(z3.Or(ne >= 0, exact), fe, fe + 1), fl_lo, fl_hi + 1)

    def __int__(self):
        return self.__trunc__()

    def __round__(self, nd=None):
        if nd is not None:
            raise Unsupported("round(x, ndigits) on symbolic float")
        # round half to even of num/den
        two = self.num * 2 + self.den  # floor((2n + d) / 2d) = round half up
        up = two // (2 * self.den)
        rem = two % (2 * self.den)
        if type(up) is int and type(rem) is int:
            return up - 1 if (rem == 0 and up % 2 == 1) else up
        ue, ul, uh = lift3(up)
        re_, _, _ = lift3(rem)
        tie = re_ == 0
        odd = z3.Extract(0, 0, ue) == 1
        return mk(z3.If(z3.And(tie, odd), ue - 1, ue), ul - 1, uh)

    def split_seconds(self):
        """CPython fromtimestamp: (integral seconds, microseconds) with round-half-even of the
        fraction and carry; exact under the rational abstraction."""
        us = SymRatio(self.num * 1_000_000, self.den).__round__()
        return us // 1_000_000, us % 1_000_000

    def is_integer(self):
        return (self.num % self.den) == 0

    def __float__(self): raise Unsupported("float() of symbolic value")
    def __repr__(self): return "<SymRatio>"
    def __format__(self, s): return "<SymRatio>"


class SymFloat:
    """IEEE double given by its bit pattern."""
    __class__ = property(lambda self: float)  # C-level isinstance() / `match` class patterns see the represented type

    __slots__ = ("bv",)

    def __init__(self, bv64):
        self.bv = bv64

    @property
    def fp(self):
        return z3.fpBVToFP(self.bv, z3.Float64())

    def _cmp(self, o, f):
        if type(o) is SymFloat:
            return SymBool(f(self.fp, o.fp))
        if type(o) in (float, int) and not type(o) is bool:
            return SymBool(f(self.fp, z3.FPVal(float(o), z3.Float64())))
        return NotImplemented

    def __eq__(self, o): return self._cmp(o, z3.fpEQ)
    def __ne__(self, o):
        r = self._cmp(o, z3.fpEQ)
        return r if r is NotImplemented else SymBool(z3.Not(r.e))
    def __lt__(self, o): return self._cmp(o, z3.fpLT)
    def __le__(self, o): return self._cmp(o, z3.fpLEQ)
    def __gt__(self, o): return self._cmp(o, z3.fpGT)
    def __ge__(self, o): return self._cmp(o, z3.fpGEQ)
    def __hash__(self): raise Unsupported("hash of symbolic float")
    def isfinite(self):
        return SymBool(z3.And(z3.Not(z3.fpIsNaN(self.fp)), z3.Not(z3.fpIsInf(self.fp))))
    def __float__(self): raise Unsupported("float() of symbolic value")
    def __repr__(self): return "<SymFloat>"
    def __format__(self, s): return "<SymFloat>"


def float_bits(x: float):
    import struct

    return z3.BitVecVal(int.from_bytes(struct.pack(">d", x), "big"), 64)


# ---------------------------------------------------------------------------------------
class Blob:
    _ids = itertools.count()
    __slots__ = ("id", "length", "kind", "root", "off", "name")

    def __init__(self, length, kind="bytes", root=None, off=0, name=None):
        self.id = next(Blob._ids)
        self.length = length  # int | SymInt
        self.kind = kind
        self.root = root if root is not None else self
        self.off = off
        self.name = name

    def is_whole(self):
        return self.root is self

    def expand(self):
        """the payload's bytes as symbolic bytes (content = uninterpreted array per payload,
        indexed by offset), possible only for a concrete length"""
        n = self.length
        if type(n) is not int:
            c = ctx()
            if c.feasible(n.e > 64):
                raise Unsupported("individual bytes of a long symbolic-length opaque payload")
            n = c.concretise(n.e, limit=70)
        if n > 64:
            raise Unsupported("individual bytes of a long opaque payload")
        arr = z3.Array(f"payload_{self.root.id}", z3.BitVecSort(W), z3.BitVecSort(8))
        off = lift3(self.off)[0]
        return [byte_of(z3.Select(arr, off + bvval(i))) for i in _range(n)]

    def __repr__(self):
        return f"<Blob {self.name or self.id} {self.kind}>"


_blob_eq_cache = {}


def blob_content_eq(a: Blob, b: Blob):
    """Equality of two distinct opaque payloads: an uninterpreted Boolean with the one
    fact that matters to the code under test: equal payloads have equal length."""
    if a is b:
        return True
    key = (min(a.id, b.id), max(a.id, b.id))
    c = ctx()
    cache = c.notes.setdefault("blob_eq", {})
    if key not in cache:
        v = z3.Bool(f"blobeq_{key[0]}_{key[1]}")
        la, _ = lift(a.length)
        lb, _ = lift(b.length)
        c.add(z3.Implies(v, la == lb))
        cache[key] = v
    return SymBool(cache[key])


class SymBytes:
    __class__ = property(lambda self: bytes)  # C-level isinstance() / `match` class patterns see the represented type
    __slots__ = ("items",)

    def __init__(self, items=()):
        self.items = list(items)

    @staticmethod
    def of(x):
        t = type(x)
        if t is SymBytes:
            return x
        if t in (bytes, bytearray, memoryview) or _isinstance(x, (bytes, bytearray)):
            return SymBytes(list(bytes(x)))
        its = getattr(t, "items", None)
        if its is not None and t.__module__ == "kv.bufmodels":
            return SymBytes(x.items())
        raise TypeError(f"a bytes-like object is required, not {t.__name__!r}")

    def has_blob(self):
        return any(type(i) is Blob for i in self.items)

    def is_concrete(self):
        return all(type(i) is int for i in self.items)

    def concrete(self):
        return bytes(self.items)

    def sym_len(self):
        n = 0
        for i in self.items:
            n = n + (i.length if type(i) is Blob else 1)
        return n

    def __len__(self):
        n = self.sym_len()
        if type(n) is int:
            return n
        raise Unsupported("builtin len() of symbolic-length bytes reached C level")

    def expanded(self):
        """items with every opaque payload replaced by its (symbolic) bytes"""
        if not self.has_blob():
            return self.items
        out = []
        for i in self._nz():
            if type(i) is Blob:
                out.extend(i.expand())
            else:
                out.append(i)
        return out

    def __iter__(self):
        return iter(list(self.expanded()))

    def __getitem__(self, k):
        if self.has_blob():
            return SymBytes(self.expanded()).__getitem__(k)
        if type(k) is slice:
            return _norm(SymBytes(self.items[k]))
        if type(k) is SymInt:
            k = k.__index__()
        return self.items[k]

    def __add__(self, o):
        try:
            return SymBytes(self.items + SymBytes.of(o).items)
        except TypeError:
            return NotImplemented

    def __radd__(self, o):
        try:
            return SymBytes(SymBytes.of(o).items + self.items)
        except TypeError:
            return NotImplemented

    def __bool__(self):
        n = self.sym_len()
        return (n != 0) if type(n) is int else bool(n != 0)

    def _nz(self):
        out = []
        for i in self.items:
            if type(i) is Blob:
                z = i.length == 0
                if (z if type(z) is bool else bool(z)):
                    continue
            out.append(i)
        return out

    def __eq__(self, o):
        try:
            o = SymBytes.of(o)
        except TypeError:
            return NotImplemented
        return seq_equal(self._nz(), o._nz())

    def __ne__(self, o):
        r = self.__eq__(o)
        if r is NotImplemented:
            return r
        return SymBool(z3.Not(r.e)) if type(r) is SymBool else (not r)

    def __hash__(self):
        raise Unsupported("hash of symbolic bytes")

    def decode(self, encoding="utf-8", errors="strict"):
        if self.is_concrete():
            return self.concrete().decode(encoding, errors)
        if encoding.lower().replace("_", "-") not in ("utf-8", "utf8"):
            raise Unsupported("decode with non-UTF-8 codec")
        whole_valid = all(type(i) is Blob and i.kind == "str" and i.is_whole() for i in self._nz())
        if not whole_valid:
            ok = z3.Bool(ctx().name("utf8_valid"))
            if not ctx().branch(ok):
                raise UnicodeDecodeError("utf-8", b"", 0, 1, "invalid start byte (symbolic)")
        return SymStr(self)

    def hex(self): raise Unsupported("hex of symbolic bytes")
    def __repr__(self): return f"<SymBytes {_len(self.items)} items>"
    def __format__(self, s): return "<SymBytes>"


def _norm(sb: SymBytes):
    return sb.concrete() if sb.is_concrete() else sb


def _expand_concrete(items):
    out = []
    for i in items:
        if type(i) is Blob and type(i.length) is int and i.length <= 64:
            out.extend(i.expand())
        else:
            out.append(i)
    return out


def _same_structure(a, b):
    return _len(a) == _len(b) and all((type(x) is Blob) == (type(y) is Blob) for x, y in zip(a, b))


def seq_equal(a, b):
    """Equality of two item sequences -> bool | SymBool.  Blobs compare by identity of
    (root, offset, length); distinct roots through an uninterpreted content equality."""
    if not _same_structure(a, b):
        a2, b2 = _expand_concrete(a), _expand_concrete(b)
        if _same_structure(a2, b2):
            a, b = a2, b2
    if _len(a) != _len(b) or not _same_structure(a, b):
        if not any(type(i) is Blob for i in a) and not any(type(i) is Blob for i in b):
            return False
        la = SymBytes(a).sym_len()
        lb = SymBytes(b).sym_len()
        r = la == lb
        if type(r) is bool:
            if not r:
                return False
        elif not ctx().branch(r.e):
            return False
        # same total length, different segmentation: compare byte-wise (small payloads only)
        a3, b3 = SymBytes(a).expanded(), SymBytes(b).expanded()
        if _len(a3) != _len(b3):
            raise Unsupported("bytes compare: different segment structure")
        return seq_equal(a3, b3)
    conj = []
    for x, y in zip(a, b):
        tx, ty = type(x), type(y)
        if tx is Blob and ty is Blob:
            if x is y:
                continue
            if x.root is y.root:
                for r in (x.off == y.off, x.length == y.length):
                    if type(r) is bool:
                        if not r:
                            return False
                    else:
                        conj.append(r.e)
            else:
                r = blob_content_eq(x, y)
                if type(r) is SymBool:
                    conj.append(r.e)
        else:
            if tx is int and ty is int:
                if x != y:
                    return False
            else:
                conj.append(byte_term(x) == byte_term(y))
    if not conj:
        return True
    return SymBool(z3.And(*conj) if _len(conj) > 1 else conj[0])


class SymStr:
    """A well-formed str whose UTF-8 encoding is `data`."""
    __class__ = property(lambda self: str)  # C-level isinstance() / `match` class patterns see the represented type

    __slots__ = ("data", "_nchars")

    def __init__(self, data: SymBytes):
        self.data = data
        self._nchars = None

    def encode(self, encoding="utf-8", errors="strict"):
        if encoding.lower().replace("_", "-") not in ("utf-8", "utf8"):
            raise Unsupported("encode with non-UTF-8 codec")
        return self.data

    def nchars(self):
        if self._nchars is None:
            c = ctx()
            bl = self.data.sym_len()
            ble, bl_lo, bl_hi = lift3(bl)
            n = SymInt(z3.BitVec(c.name("nchars"), W), None, 0, max(bl_hi, 0))
            c.add(z3.And(n.e >= 0, n.e <= ble, ble <= 4 * n.e))
            self._nchars = n
        return self._nchars

    def __len__(self):
        raise Unsupported("builtin len() of symbolic str reached C level")

    def __eq__(self, o):
        if type(o) is SymStr:
            return self.data == o.data
        if type(o) is str:
            if o == "":
                return self.data.sym_len() == 0
            ob = o.encode()
            if not self.data.has_blob():
                return self.data == ob
            # a payload compared with a non-empty literal: uninterpreted, length-consistent
            items = self.data._nz()
            if _len(items) == 0:
                return False
            if _len(items) == 1:
                lit = ctx().notes.setdefault("lit_blobs", {})
                if o not in lit:
                    lit[o] = Blob(_len(ob), "str", name=f"lit:{o}")
                return seq_equal(items, [lit[o]])
            raise Unsupported("compare symbolic str with literal")
        return NotImplemented

    def __ne__(self, o):
        r = self.__eq__(o)
        if r is NotImplemented:
            return r
        return SymBool(z3.Not(r.e)) if type(r) is SymBool else (not r)

    def __bool__(self):
        return bool(self.data)

    def __hash__(self):
        raise Unsupported("hash of symbolic str")

    def __repr__(self): return "<SymStr>"
    def __format__(self, s): return "<SymStr>"


class SymUUID:
    __class__ = property(lambda self: _uuid_mod.UUID)  # C-level isinstance() / `match` class patterns see the represented type
    __slots__ = ("bytes",)

    def __init__(self, bytes=None):
        b = SymBytes.of(bytes) if not type(bytes) is SymBytes else bytes
        n = b.sym_len()
        if not (type(n) is int and n == 16):
            raise ValueError("bytes is not a 16-char string")
        self.bytes = _norm(b)

    @property
    def int(self):
        return int_from_bytes(SymBytes.of(self.bytes).items, "big", False) if True else None

    def __eq__(self, o):
        if type(o) is SymUUID:
            return SymBytes.of(self.bytes) == o.bytes
        import uuid

        if _isinstance(o, uuid.UUID):
            return SymBytes.of(self.bytes) == o.bytes
        return NotImplemented

    def __ne__(self, o):
        r = self.__eq__(o)
        if r is NotImplemented:
            return r
        return SymBool(z3.Not(r.e)) if type(r) is SymBool else (not r)

    def __hash__(self):
        raise Unsupported("hash of symbolic UUID")

    def __repr__(self): return "<SymUUID>"


class SymEnumMember:
    """A member of `enum` whose value is symbolic (constrained to the enum's value set)."""
    __class__ = property(lambda self: self.enum)  # C-level isinstance() / `match` class patterns see the represented type

    __slots__ = ("enum", "value")

    def __init__(self, enum, value: SymInt):
        self.enum = enum
        self.value = value

    @property
    def _value_(self):
        return self.value

    def __eq__(self, o):
        if type(o) is SymEnumMember:
            return self.value == o.value if o.enum is self.enum else False
        if _isinstance(o, self.enum):
            return self.value == o.value
        if type(o) in (int, SymInt) and issubclass(self.enum, int):
            return self.value == o
        return NotImplemented

    def __ne__(self, o):
        r = self.__eq__(o)
        if r is NotImplemented:
            return r
        return SymBool(z3.Not(r.e)) if type(r) is SymBool else (not r)

    def __hash__(self):
        raise Unsupported("hash of symbolic enum member")

    def __index__(self):
        return self.value.__index__()

    def __repr__(self): return f"<Sym{self.enum.__name__}>"
    def __format__(self, s): return f"<Sym{self.enum.__name__}>"


# ---------------------------------------------------------------------------------------
# shadows for builtins, injected as module globals into kio modules


def sym_len(x):
    t = type(x)
    if t is SymBytes:
        return x.sym_len()
    if t is SymStr:
        return x.nchars()
    f = getattr(t, "__sym_len__", None)
    if f is not None:
        return f(x)
    return _len(x)


def sym_range(*a):
    if _len(a) == 1 and type(a[0]) is SymInt:
        n = a[0]
        c = ctx()
        B = c.range_bound
        if c.branch(n.e < 0):
            return _range(0)
        for v in _range(B + 1):
            if c.branch(n.e == v):
                return _range(v)
        c.notes["range_over_bound"] = c.notes.get("range_over_bound", 0) + 1
        return _range(B + 1)
    if any(type(x) is SymInt for x in a):
        a = [x.__index__() if type(x) is SymInt else x for x in a]
    return _range(*a)


_PROXY_BASE = {}


def proxy_python_type(obj):
    return _PROXY_BASE.get(type(obj))


_MODEL_TO_REAL = {}  # id(model class) -> real class (filled by kv.models)
_UNWRAP_HOOKS = []  # callables cls -> real class | None


def real_class(cls):
    r = _MODEL_TO_REAL.get(id(cls))
    if r is not None:
        return r
    if cls is sym_int:
        return int
    r = getattr(cls, "_real", None)
    if r is not None and type(cls).__name__ == "ShadowType":
        return r
    for h in _UNWRAP_HOOKS:
        r = h(cls)
        if r is not None:
            return r
    return cls


def sym_isinstance(obj, cls):
    import types as _types

    if type(cls) is tuple:
        return any(sym_isinstance(obj, c) for c in cls)
    if type(cls) is _types.UnionType:
        return any(sym_isinstance(obj, c) for c in cls.__args__)
    cls = real_class(cls)
    base = _PROXY_BASE.get(type(obj))
    if base is None:
        return _isinstance(obj, cls)
    mcls = type(cls)
    ic = getattr(mcls, "__instancecheck__", None)
    if ic is not None and ic is not type.__instancecheck__ and mcls.__module__.startswith("kio"):
        return ic(cls, obj)
    if type(obj) is SymEnumMember:
        return issubclass(obj.enum, cls)
    try:
        return issubclass(base, cls)
    except TypeError:
        return False


def sym_int(x=0, *a):
    t = type(x)
    if t is SymInt:
        return x
    if t is SymBool:
        return SymInt(*lift(x))
    if t is SymRatio:
        return x.__trunc__()
    if t is SymEnumMember:
        return x.value
    tr = getattr(t, "__trunc__", None)
    if t.__module__.startswith("kv.") and tr is not None:
        return x.__trunc__()
    return int(x, *a)


def sym_round(x, nd=None):
    r = getattr(type(x), "__round__", None)
    if type(x).__module__.startswith("kv.") and r is not None:
        return x.__round__(nd) if nd is not None else x.__round__()
    return round(x) if nd is None else round(x, nd)


def sym_max(*args, key=None, default=None):
    seq = list(args[0]) if _len(args) == 1 else list(args)
    if not seq:
        if default is not None:
            return default
        raise ValueError("max() arg is an empty sequence")
    kf = key or (lambda v: v)
    best = seq[0]
    for v in seq[1:]:
        if kf(v) > kf(best):
            best = v
    return best


def sym_min(*args, key=None, default=None):
    seq = list(args[0]) if _len(args) == 1 else list(args)
    if not seq:
        if default is not None:
            return default
        raise ValueError("min() arg is an empty sequence")
    kf = key or (lambda v: v)
    best = seq[0]
    for v in seq[1:]:
        if kf(v) < kf(best):
            best = v
    return best


def sym_abs(x):
    return x.__abs__()


def sym_bytes(*a, **k):
    """bytes(...) shadow: an iterable holding symbolic bytes becomes a SymBytes"""
    if _len(a) == 1 and not k:
        x = a[0]
        t = type(x)
        if t is SymBytes:
            return x
        if t is SymInt:
            return bytes(x.__index__())
        if t.__module__ == "kv.bufmodels":
            return _norm(SymBytes(x.items()))
        if t in (list, tuple) or hasattr(x, "__next__"):
            items = list(x)
            if any(type(i) in (SymInt, SymBool) for i in items):
                out = []
                for i in items:
                    if type(i) is SymBool:
                        i = SymInt(*lift(i))
                    if type(i) is SymInt:
                        if not ((i >= 0) if type(i >= 0) is bool else bool(i >= 0)) or not ((i <= 255) if type(i <= 255) is bool else bool(i <= 255)):
                            raise ValueError("bytes must be in range(0, 256)")
                        out.append(i)
                    else:
                        if not 0 <= i <= 255:
                            raise ValueError("bytes must be in range(0, 256)")
                        out.append(int(i))
                return SymBytes(out)
            return bytes(items)
    return bytes(*a, **k)


def sym_tuple(it=()):
    return tuple(it)


def sym_hash(x):
    return x.__hash__()


def sym_bool(x=False):
    if type(x) is SymBool:
        return x
    if type(x) is SymInt:
        return SymBool(x.e != 0)
    return bool(x)


import uuid as _uuid
import enum as _enum

_MODEL_TO_REAL[id(sym_bytes)] = bytes

_PROXY_BASE.update({SymInt: int, SymBool: bool, SymBytes: bytes, SymStr: str, SymFloat: float, SymRatio: float,
                    SymUUID: _uuid.UUID, SymEnumMember: _enum.Enum})


def advertise_classes():
    """Kept for callers: the proxies declare `__class__` in their class bodies (it cannot be added later)."""
    return None
