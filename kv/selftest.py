"""kv.selftest - validation of the trusted base (Serval-style): the boundary models and the
proxy arithmetic are compared with the genuine CPython objects.

quick(): a sub-second subset run at the start of every check (in install.install()).
full():  `./check selftest` - 8/16-bit exhaustive, limits +-1, 10^4 seeded values per format,
         BytesIO op sequences, datetime model vs datetime at range limits and 10^k +- 1,
         CRC-32C vectors and single-bit-flip sensitivity, reference encoder vs kio on the
         repo's own Hypothesis strategies (concrete), engine agreement (z3 vs cvc5 on dumped queries)."""
from __future__ import annotations

import datetime
import io
import random
import struct
import sys

import z3

from . import sym as S
from .core import Ctx
from .models import DT, TD, TZ, BytesIOModel, StructModel


class SelfTestFailure(Exception):
    pass


def _path():
    c = Ctx()
    Ctx.cur = c
    return c


def _val(c, x):
    """evaluate a proxy to a Python value (it must be a constant term)"""
    t = type(x)
    if t is int or t is bool or x is None or t is bytes:
        return x
    if t is S.SymInt:
        e = z3.simplify(x.e)
        if not z3.is_bv_value(e):
            m = c.get_model()
            e = m.eval(x.e, model_completion=True)
        return e.as_signed_long()
    if t is S.SymBool:
        e = z3.simplify(x.e)
        if z3.is_true(e) or z3.is_false(e):
            return z3.is_true(e)
        return z3.is_true(c.get_model().eval(x.e, model_completion=True))
    if t is S.SymBytes:
        return bytes(_val(c, i) & 0xFF for i in x.items)
    raise TypeError(t)


def _mk_const(v):
    s = S.SymInt.__new__(S.SymInt)
    s.e = z3.BitVecVal(v, S.W)
    s.lo, s.hi = v - 1, v + 1  # deliberately not a point interval: forces the term-level code paths
    s.lin = None
    return s


FMTS = {"b": (-128, 127), "B": (0, 255), "h": (-(2**15), 2**15 - 1), "H": (0, 2**16 - 1), "i": (-(2**31), 2**31 - 1), "I": (0, 2**32 - 1),
        "q": (-(2**63), 2**63 - 1), "Q": (0, 2**64 - 1)}


def check_struct(values_per_fmt=200, exhaustive_small=False, rnd=None):
    rnd = rnd or random.Random(1)
    n = 0
    for code, (lo, hi) in FMTS.items():
        fmt = ">" + code
        vals = {lo, hi, lo + 1, hi - 1, 0, 1, -1 if lo < 0 else 2, lo - 1, hi + 1, lo - 2**40, hi + 2**40}
        if exhaustive_small and code in "bBhH":
            vals |= set(range(lo, hi + 1))
        vals |= {rnd.randint(lo - 10, hi + 10) for _ in range(values_per_fmt)}
        for v in vals:
            c = _path()
            try:
                want = struct.pack(fmt, v)
            except struct.error:
                want = None
            try:
                got = _val(c, StructModel.pack(fmt, _mk_const(v)))
            except struct.error:
                got = None
            if got != want:
                raise SelfTestFailure(f"struct.pack({fmt!r}, {v}): model {got!r} real {want!r}")
            if want is not None:
                back = StructModel.unpack(fmt, S.SymBytes([_mk_const(b) for b in want]))[0]
                if _val(c, back) != v:
                    raise SelfTestFailure(f"struct.unpack({fmt!r}, {want!r}): model {_val(c, back)} real {v}")
            n += 1
    # bool and double
    for v in (True, False):
        c = _path()
        if _val(c, StructModel.pack(">?", S.SymBool(z3.BoolVal(v)))) != struct.pack(">?", v):
            raise SelfTestFailure("struct.pack('>?')")
    for f in (0.0, -0.0, 1.5, float("inf"), float("nan"), 5e-324, 1.7976931348623157e308, -123.456):
        c = _path()
        bits = int.from_bytes(struct.pack(">d", f), "big")
        got = _val(c, StructModel.pack(">d", S.SymFloat(z3.BitVecVal(bits, 64))))
        if got != struct.pack(">d", f):
            raise SelfTestFailure(f"struct.pack('>d', {f})")
        n += 1
    Ctx.cur = None
    return n


def check_int_ops(n=300, rnd=None):
    """proxy arithmetic against Python ints (incl. negative values, shifts, masks, floor division)"""
    rnd = rnd or random.Random(2)
    cnt = 0
    for _ in range(n):
        a = rnd.choice([0, 1, -1, 127, 128, 2**31 - 1, -(2**31), 2**63, -(2**63) - 5, rnd.randint(-(2**70), 2**70)])
        b = rnd.choice([0, 1, -1, 7, 0x7F, 0x80, 1000, rnd.randint(-(2**40), 2**40)])
        k = rnd.randint(0, 40)
        d = rnd.choice([1, 7, 1000, 10**6, 86400])
        c = _path()
        A, B = _mk_const(a), _mk_const(b)
        cases = [("add", A + B, a + b), ("sub", A - B, a - b), ("rsub", b - A, b - a), ("mul", A * B, a * b), ("and", A & B, a & b), ("or", A | B, a | b), ("xor", A ^ B, a ^ b),
                 ("neg", -A, -a), ("inv", ~A, ~a), ("lsh", A << k, a << k), ("rsh", A >> k, a >> k), ("floordiv", A // d, a // d), ("mod", A % d, a % d),
                 ("lt", A < B, a < b), ("le", A <= B, a <= b), ("eq", A == B, a == b), ("ne", A != B, a != b), ("ge", A >= B, a >= b), ("abs", abs(A), abs(a))]
        for name, got, want in cases:
            g = _val(c, got)
            if g != want:
                raise SelfTestFailure(f"int op {name}({a}, {b}, k={k}, d={d}): model {g} python {want}")
            cnt += 1
        # exact-rational float abstraction: int(), round() of a/d
        r = S.SymRatio(A, d)
        if _val(c, r.__round__()) != round(__import__("fractions").Fraction(a, d)):
            raise SelfTestFailure(f"round({a}/{d})")
        if _val(c, r.__trunc__()) != int(__import__("fractions").Fraction(a, d)):
            raise SelfTestFailure(f"trunc({a}/{d})")
    Ctx.cur = None
    return cnt


def check_bytesio(n=60, rnd=None):
    rnd = rnd or random.Random(3)
    cnt = 0
    for _ in range(n):
        c = _path()
        real, model = io.BytesIO(), BytesIOModel()
        for _ in range(rnd.randint(1, 12)):
            op = rnd.choice(["write", "write", "write", "tell", "getvalue", "seek0", "read", "seek_end"])
            if op == "write":
                data = bytes(rnd.randrange(256) for _ in range(rnd.randint(0, 9)))
                if real.tell() != len(real.getvalue()):
                    real.seek(0, 2)
                    model.seek(0, 2)
                real.write(data)
                model.write(data)
            elif op == "tell":
                if real.tell() != model.tell():
                    raise SelfTestFailure("BytesIO.tell")
            elif op == "getvalue":
                if real.getvalue() != bytes(model.getvalue()):
                    raise SelfTestFailure("BytesIO.getvalue")
            elif op == "seek0":
                real.seek(0)
                model.seek(0)
            elif op == "seek_end":
                real.seek(0, 2)
                model.seek(0, 2)
            else:
                k = rnd.randint(-1, 6)
                a, b = real.read(k), model.read(k)
                if a != bytes(b):
                    raise SelfTestFailure(f"BytesIO.read({k}): {a!r} vs {bytes(b)!r}")
            cnt += 1
    Ctx.cur = None
    return cnt


def check_datetime(rnd=None, n=200):
    """TD/DT models against datetime at range limits, powers of ten +-1 and random values"""
    rnd = rnd or random.Random(4)
    E = datetime.datetime(1970, 1, 1, tzinfo=datetime.timezone.utc)
    cnt = 0
    mss = {0, 1, -1, 999, 1000, 1001, 1500, 2**31 - 1, -(2**31), 2**53, 2**53 + 1, 86399999999999999, -86399999913600000, 86400000000000000, 65536002, 253402300799999, 253402300800000}
    for k in range(1, 17):
        mss |= {10**k - 1, 10**k, 10**k + 1}
    mss |= {rnd.randint(-(2**55), 2**55) for _ in range(n)}
    for ms in sorted(mss):
        c = _path()
        try:
            want = datetime.timedelta(milliseconds=ms)
        except OverflowError:
            want = OverflowError
        try:
            got = TD(milliseconds=_mk_const(ms))
            got = datetime.timedelta(microseconds=_val(c, got.us))
        except OverflowError:
            got = OverflowError
        if got != want:
            raise SelfTestFailure(f"timedelta(milliseconds={ms}): model {got} real {want}")
        if want is not OverflowError:
            # epoch + timedelta
            try:
                w2 = E + want
            except OverflowError:
                w2 = OverflowError
            try:
                g2 = TD(milliseconds=_mk_const(ms)).__radd__(E)
                g2 = (_val(c, g2.secs), _val(c, g2.micro))
            except OverflowError:
                g2 = OverflowError
            if w2 is OverflowError or g2 is OverflowError:
                if w2 is not g2:
                    raise SelfTestFailure(f"epoch + {ms} ms: model {g2} real {w2}")
            else:
                d = w2 - E
                if g2 != (d.days * 86400 + d.seconds, d.microseconds):
                    raise SelfTestFailure(f"epoch + {ms} ms: model {g2} real {w2}")
            # total_seconds()*1000 rounded: exact-rational abstraction vs real float path (must agree below 2^53 us)
            if abs(ms) < 2**40:
                r = round(TD(milliseconds=_mk_const(ms)).total_seconds() * 1000)
                if _val(c, r) != round(want.total_seconds() * 1000):
                    raise SelfTestFailure(f"round(total_seconds*1000) at {ms}")
        cnt += 1
    # fromtimestamp model (exact rational) vs real on values where the float is exact
    for ms in (0, 500, 1500, 250, 125, 1_000_000_500):
        c = _path()
        real = datetime.datetime.fromtimestamp(ms / 1000, datetime.UTC)
        m = DT.fromtimestamp(S.SymRatio(_mk_const(ms), 1000), datetime.UTC)
        d = real - E
        if (_val(c, m.secs), _val(c, m.micro)) != (d.days * 86400 + d.seconds, d.microseconds):
            raise SelfTestFailure(f"fromtimestamp({ms}/1000)")
        cnt += 1
    Ctx.cur = None
    return cnt


def check_crc():
    import crc32c

    vectors = {b"": 0x0, b"123456789": 0xE3069283, bytes(32): 0x8A9136AA, bytes([0xFF] * 32): 0x62A8AB43, bytes(range(32)): 0x46DD794E}
    for data, want in vectors.items():
        if crc32c.crc32c(data) != want:
            raise SelfTestFailure(f"crc32c vector {data[:8]!r}")
    rnd = random.Random(5)
    n = 0
    for ln in (1, 5, 21, 61, 64, 82):
        data = bytes(rnd.randrange(256) for _ in range(ln))
        base = crc32c.crc32c(data)
        for i in range(ln * 8):
            d = bytearray(data)
            d[i // 8] ^= 1 << (i % 8)
            if crc32c.crc32c(bytes(d)) == base:
                raise SelfTestFailure("single bit flip keeps CRC-32C")
            n += 1
    return n


def check_reference_encoder(classes=60, per_class=3):
    """kv.kref vs kio's real writer on concrete instances from the repo's own Hypothesis strategies"""
    from hypothesis import HealthCheck, given, settings
    from hypothesis.strategies import from_type

    from kio.serial import entity_writer

    from . import kref, shapes

    _REPO = __import__("os").environ.get("KIO_REPO", "/repo")
    if _REPO not in sys.path:
        sys.path.insert(0, _REPO)
    try:
        from tests.hypothesis import configure_hypothesis  # registers the repo's own strategies (Records, ...)

        configure_hypothesis()
    except Exception:
        pass
    all_classes = shapes.all_entity_classes()
    rnd = random.Random(6)
    sample = rnd.sample(all_classes, min(classes, len(all_classes)))
    n = [0]
    for cls in sample:
        @settings(max_examples=per_class, deadline=None, database=None, derandomize=True, suppress_health_check=list(HealthCheck))
        @given(from_type(cls))
        def run(x):
            buf = io.BytesIO()
            entity_writer(cls)(buf, x)
            ref = bytes(kref.encode(x))
            if buf.getvalue() != ref:
                raise SelfTestFailure(f"reference encoder disagrees with kio on {cls.__name__}: {x!r}")
            n[0] += 1

        run()
    return n[0]


def check_two_solvers(n_queries=120):
    """dump path queries of a few lemmas as SMT-LIB2 and re-decide them with the cvc5 binary"""
    import shutil
    import subprocess
    import tempfile

    from . import core, install, lemma

    install.install()
    exe = shutil.which("cvc5")
    if exe is None:
        return {"skipped": "cvc5 binary not found"}
    dumped = []
    orig = core.Ctx._check

    def spy(self, *a):
        r = orig(self, *a)
        if len(dumped) < n_queries:
            s = z3.Solver()
            s.add(*self.solver.assertions())
            for x in a:
                s.add(x)
            dumped.append((s.to_smt2(), "sat" if r else "unsat"))
        return r

    core.Ctx._check = spy
    try:
        for name in ("fixed_int32", "unsigned_varint_write", "signed_varint", "compact_string", "uuid"):
            lemma.task_lemma(("kv.props.c11", name, False, {}))
    finally:
        core.Ctx._check = orig
    agree = disagree = unknown = errors = 0
    with tempfile.TemporaryDirectory() as td:
        for k, (smt, want) in enumerate(dumped):
            p = f"{td}/q{k}.smt2"
            with open(p, "w") as fh:
                fh.write("(set-logic ALL)\n" + smt)
            try:
                out = subprocess.run([exe, "--tlimit=20000", p], capture_output=True, text=True, timeout=40).stdout
            except subprocess.TimeoutExpired:
                unknown += 1
                continue
            if "(error" in out:
                errors += 1
            elif out.strip().startswith("unsat") and want == "unsat" or out.strip().startswith("sat") and want == "sat":
                agree += 1
            elif out.strip().startswith(("sat", "unsat")):
                disagree += 1
            else:
                unknown += 1
    if disagree:
        raise SelfTestFailure(f"z3 and cvc5 disagree on {disagree} of {len(dumped)} dumped path queries")
    return {"queries": len(dumped), "agree": agree, "cvc5_unknown_or_timeout": unknown, "cvc5_errors": errors}


def quick():
    """sub-second subset run at the start of every check"""
    check_struct(values_per_fmt=4)
    check_int_ops(n=12)
    check_bytesio(n=4)
    check_datetime(n=4)
    return True


def full():
    import json
    import time

    from . import install

    install.install()
    t0 = time.time()
    out = {}
    out["struct_cases"] = check_struct(values_per_fmt=10_000 // 8, exhaustive_small=True)
    out["int_op_cases"] = check_int_ops(n=1500)
    out["bytesio_ops"] = check_bytesio(n=400)
    out["datetime_cases"] = check_datetime(n=1500)
    out["crc_bit_flips"] = check_crc()
    out["reference_encoder_instances"] = check_reference_encoder()
    out["two_solvers"] = check_two_solvers()
    out["wall_s"] = round(time.time() - t0, 1)
    print(json.dumps(out, indent=1))
    print("SELFTEST OK")
    return 0
