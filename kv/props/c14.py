"""C14 - the versions of an API form a coherent family (finite facts)."""
from __future__ import annotations

import re
import time

import z3

from .. import facts as F


def snake(name: str) -> str:
    """independent statement of the naming convention: an underscore before an upper-case
    letter that follows a lower-case letter or digit... (acronym runs stay together)"""
    s = re.sub(r"([a-z])([A-Z])", r"\1_\2", name)
    s = re.sub(r"([A-Z]+)([A-Z][a-z])", r"\1_\2", s)
    s = re.sub(r"([0-9])([A-Z][a-z])", r"\1_\2", s)
    return s.lower()


def rules():
    crow, frow = F.extract()
    for r in crow:
        r["top"] = r["type"] is not None and r["type"] != "nested"
        exp = None
        if r["top"]:
            sn = snake(r["name"])
            exp = sn if r["type"] in ("header", "data") else (sn.removesuffix("_" + r["type"]) if sn.endswith("_" + r["type"]) else None)
        r["name_api"] = exp
        r["name_matches_path"] = (exp == r["api"]) if r["top"] else True
        r["path_ok"] = r["module"].startswith("kio.schema.") and r["module"].count(".") == 4 and r["path_version"] is not None
    q = F.Queries()
    ct = F.Table("c", crow, dict(module="cat", api="cat", path_version="int", path_type="cat", type="cat", version="int", flexible="bool", api_key="int",
                                 header="cat", top="bool", name_matches_path="bool", path_ok="bool"))
    d = lambda r: r["cid"]
    gm = F.Table("m", F.groups(crow, lambda r: r["module"], {"versions": lambda r: r["version"], "flex": lambda r: r["flexible"], "keys": lambda r: r["api_key"],
                                                            "headers": lambda r: r["header"], "tops": lambda r: r["cid"] if r["top"] else None}),
                 dict(versions="int", flex="int", keys="int", headers="int"))
    dm = lambda r: str(r["group"])
    q.exists_bad("module_path_is_kio.schema.<api>.v<N>.<type>", [ct], z3.Not(ct.col("path_ok")), d)
    q.exists_bad("classes_of_a_module_share_version", [gm], gm.col("versions") != 1, dm)
    q.exists_bad("classes_of_a_module_share_flexibility", [gm], gm.col("flex") != 1, dm)
    q.exists_bad("classes_of_a_module_share_api_key", [gm], gm.col("keys") != 1, dm)
    q.exists_bad("classes_of_a_module_share_header_schema", [gm], gm.col("headers") != 1, dm)
    none_key = -(10**9)
    no_header = ct.code("header", None)
    payload_path = z3.Or(ct.col("path_type") == ct.code("path_type", "request"), ct.col("path_type") == ct.code("path_type", "response"))
    q.exists_bad("classes_of_request_and_response_modules_carry_an_api_key_and_a_header_schema", [ct],
                 z3.And(payload_path, z3.Or(ct.col("api_key") == none_key, ct.col("header") == no_header)), d)
    q.exists_bad("classes_of_header_and_data_modules_carry_neither", [ct],
                 z3.And(z3.Not(payload_path), z3.Or(ct.col("api_key") != none_key, ct.col("header") != no_header)), d)
    q.exists_bad("path_version_equals___version__", [ct], ct.col("path_version") != ct.col("version"), d)
    q.exists_bad("path_type_equals___type___of_top_level_class", [ct], z3.And(ct.col("top"), ct.col("path_type") != ct.col("type")), d)
    tops = [r for r in crow if r["top"]]
    from .. import shapes as _shapes

    # version modules = modules four levels deep (kio.schema.<api>.v<N>.<type>); a module that only re-exports
    # classes defined elsewhere has zero own classes and must be reported, not skipped
    ntop = {m: 0 for m in _shapes.all_schema_modules() if m.count(".") == 4}
    for r in crow:
        ntop.setdefault(r["module"], 0)
        ntop[r["module"]] += 1 if r["top"] else 0
    gn = F.Table("n", [{"module": m, "ntop": n} for m, n in ntop.items()], dict(ntop="int"))
    q.exists_bad("exactly_one_top_level_class_per_module", [gn], gn.col("ntop") != 1, lambda r: r["module"])
    q.exists_bad("top_level_class_name_snake_cases_to_the_api_name", [ct], z3.Not(ct.col("name_matches_path")), lambda r: f"{r['cid']} -> {r['name_api']}")
    # families: one row per (api, type) with aggregated facts; one row per api
    present = {}
    for r in tops:
        present.setdefault((r["api"], r["type"]), {})[r["version"]] = r
    fam_rows = []
    for (api, t), vs in present.items():
        ks = sorted(vs)
        flex = [vs[v]["flexible"] for v in ks]
        fam_rows.append({"api": api, "type": t, "min": ks[0], "max": ks[-1], "count": len(ks),
                         "reverts": int(any(a and not b for a, b in zip(flex, flex[1:]))), "keys": len({vs[v]["api_key"] for v in ks})})
    fam = F.Table("fam", fam_rows, dict(min="int", max="int", count="int", reverts="int", keys="int"))
    df = lambda r: f"{r['api']}/{r['type']}"
    q.exists_bad("version_numbers_are_contiguous", [fam], fam.col("max") - fam.col("min") + 1 != fam.col("count"), df)
    q.exists_bad("flexibility_never_reverts", [fam], fam.col("reverts") != 0, df)
    api_rows = []
    by_api = {}
    for r in tops:
        by_api.setdefault(r["api"], []).append(r)
    for api, rs in by_api.items():
        reqv = sorted(r["version"] for r in rs if r["type"] == "request")
        respv = sorted(r["version"] for r in rs if r["type"] == "response")
        api_rows.append({"api": api, "keys": len({r["api_key"] for r in rs}), "key": rs[0]["api_key"], "req_resp_same": int(reqv == respv)})
    at = F.Table("api", api_rows, dict(keys="int", key="int", req_resp_same="int"))
    da = lambda r: r["api"]
    q.exists_bad("api_key_constant_within_an_api", [at], at.col("keys") != 1, da)
    q.exists_bad("requests_and_responses_exist_for_the_same_versions", [at], at.col("req_resp_same") != 1, da)
    keyrows = F.groups([r for r in api_rows if r["key"] is not None], lambda r: r["key"], {"apis": lambda r: r["api"]})
    kt_ = F.Table("key", keyrows, dict(apis="int"))
    q.exists_bad("api_key_unique_to_its_api", [kt_], kt_.col("apis") != 1, lambda r: str(r["group"]))
    return q, dict(classes=len(crow), modules=len({r["module"] for r in crow}), families=len(present))


def check(tier):
    t0 = time.time()
    q, n = rules()
    return F.finish_facts("C14", tier, t0, q,
                          functions=["class attributes __version__/__flexible__/__api_key__/__type__/__header_schema__/__module__ of every class under kio.schema"],
                          bounds={**n, "exhaustive": True}, outside=["agreement with the upstream definitions (C04, not applicable)"],
                          explanation="finite configuration property: per-class facts of all %d classes in %d version modules (%d (api, type) families) are extracted on every run; each rule is a z3 query over one or two row indices" % (n["classes"], n["modules"], n["families"]),
                          extra={"exhaustive": True, **n})
