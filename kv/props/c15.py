"""C15 - entities are immutable, hashable value objects.

Facts (frozen/eq/slots/kw_only, no __dict__, dataclass __hash__, immutable annotations),
concrete probes on one instance per class (setattr/delattr rejected; copy, deepcopy,
dataclasses.replace and pickle give equal new instances and leave the original unchanged)
and a SYMBOLIC lemma per class: two independent symbolic instances run through the real
generated __eq__, which must agree with field-wise equality; a == a; equal instances hash
equally (checked concretely on solver models of a == b)."""
from __future__ import annotations

import copy
import dataclasses
import os
import pickle
import time
import types
import typing

import z3

from .. import facts as F
from .. import kref, shapes
from ..core import Stats, Unsupported, Violation, explore
from ..sym import Blob, SymBool, SymBytes, SymEnumMember, SymFloat, SymInt, SymStr, SymUUID, blob_content_eq


def record_classes():
    from kio.records import schema as rs

    return [rs.RecordHeader, rs.Record, rs.RecordBatch, rs.NewRecordBatch]


def annotation_immutable(tp, depth=0):
    origin = typing.get_origin(tp)
    if origin in (types.UnionType, typing.Union):
        return all(annotation_immutable(a, depth + 1) for a in typing.get_args(tp))
    if origin is tuple:
        args = typing.get_args(tp)
        return len(args) == 2 and args[1] is Ellipsis and annotation_immutable(args[0], depth + 1)
    if origin is not None:
        return False
    if tp is type(None):
        return True
    if isinstance(tp, type):
        if dataclasses.is_dataclass(tp):
            p = getattr(tp, "__dataclass_params__", None)
            return bool(p and p.frozen)
        return F.base_type_name(tp) in F.IMMUTABLE_LEAVES
    return False


def concrete_instance(cls):
    if cls.__module__.startswith("kio.records"):
        import datetime

        from kio.records import schema as rs

        hdr = rs.RecordHeader(key=b"k", value=None)
        rec = rs.Record(attributes=0, timestamp=datetime.datetime(2020, 1, 1, tzinfo=datetime.UTC), offset=1, key=b"k", value=b"v", headers=(hdr,))
        return {"RecordHeader": hdr, "Record": rec,
                "RecordBatch": rs.RecordBatch(base_offset=0, batch_length=10, partition_leader_epoch=0, crc=0, attributes=0, last_offset_delta=0, base_timestamp=0,
                                              max_timestamp=0, producer_id=0, producer_epoch=0, base_sequence=0, records=(rec,)),
                "NewRecordBatch": rs.NewRecordBatch(producer_id=0, producer_epoch=0, base_sequence=0, records=(rec,), attributes=0)}[cls.__name__]
    return shapes.Builder(None, {}).entity(cls)


def probe(cls):
    """-> list of failed probe names"""
    bad = []
    x = concrete_instance(cls)
    fs = dataclasses.fields(cls)
    before = tuple(getattr(x, f.name) for f in fs)
    if fs:
        try:
            setattr(x, fs[0].name, getattr(x, fs[0].name))
            bad.append("setattr_accepted")
        except (dataclasses.FrozenInstanceError, AttributeError):
            pass
        try:
            delattr(x, fs[0].name)
            bad.append("delattr_accepted")
            x = concrete_instance(cls)  # the probe instance lost a field: continue on a fresh one
        except (dataclasses.FrozenInstanceError, AttributeError):
            pass
    try:
        x.some_new_attribute = 1
        bad.append("new_attribute_accepted")
        x = concrete_instance(cls)
    except (dataclasses.FrozenInstanceError, AttributeError, TypeError):
        pass
    if hasattr(x, "__dict__"):
        bad.append("has___dict__")
    try:
        h = hash(x)
        if h != hash(x):
            bad.append("hash_unstable")
    except TypeError:
        bad.append("unhashable")
    for name, fn in (("copy", copy.copy), ("deepcopy", copy.deepcopy), ("replace", dataclasses.replace),
                     ("pickle", lambda v: pickle.loads(pickle.dumps(v)))):
        try:
            y = fn(x)
        except Exception as e:
            bad.append(f"{name}_raises_{type(e).__name__}")
            continue
        if y != x or type(y) is not type(x):
            bad.append(f"{name}_not_equal")
        elif "unhashable" not in bad:
            try:
                if hash(y) != hash(x):
                    bad.append(f"{name}_hash_differs")
            except TypeError:
                bad.append(f"{name}_unhashable")
        if tuple(getattr(x, f.name) for f in fs) != before:
            bad.append(f"{name}_mutated_original")
    if x != x:
        bad.append("not_reflexive")
    return bad


def rules():
    crow, frow = F.extract()
    rcs = record_classes()
    rows = []
    for r in crow:
        rows.append(dict(cid=r["cid"], frozen=r["frozen"], eq=r["eq"], slots=r["slots"] and r["has_slots_attr"], kw_only=r["kw_only"], order=r["order"],
                         hash_is_generated=("__hash__" in r["cls"].__dict__ and r["cls"].__dict__["__hash__"] is not None and not r["unsafe_hash"]),
                         eq_is_generated="__eq__" in r["cls"].__dict__, cls=r["cls"]))
    for c in rcs:
        p = c.__dataclass_params__
        rows.append(dict(cid=shapes.class_id(c), frozen=p.frozen, eq=p.eq, slots=bool(getattr(p, "slots", False)) and "__slots__" in c.__dict__, kw_only=p.kw_only,
                         order=p.order, hash_is_generated="__hash__" in c.__dict__ and c.__dict__["__hash__"] is not None, eq_is_generated="__eq__" in c.__dict__, cls=c))
    for r in rows:
        c = r["cls"]
        hints = typing.get_type_hints(c)
        r["annotations_immutable"] = all(annotation_immutable(hints[f.name]) for f in dataclasses.fields(c))
        r["all_fields_compare_and_hash"] = all(f.compare and f.hash in (None, True) and f.init for f in dataclasses.fields(c))
        r["probe_failures"] = probe(c)
        r["probes_ok"] = not r["probe_failures"]
    q = F.Queries()
    t = F.Table("c", rows, dict(frozen="bool", eq="bool", slots="bool", kw_only="bool", order="bool", hash_is_generated="bool", eq_is_generated="bool",
                                annotations_immutable="bool", all_fields_compare_and_hash="bool", probes_ok="bool"))
    d = lambda r: r["cid"]
    for col in ("frozen", "eq", "slots", "kw_only", "hash_is_generated", "eq_is_generated", "annotations_immutable", "all_fields_compare_and_hash"):
        q.exists_bad(f"every_class_has_{col}", [t], z3.Not(t.col(col)), d)
    q.exists_bad("mutation_copy_replace_pickle_probes_pass", [t], z3.Not(t.col("probes_ok")), lambda r: f"{r['cid']}: {r['probe_failures']}")
    return q, dict(classes=len(rows))


# ---- symbolic __eq__ lemma ---------------------------------------------------------------------
def struct_eq(a, b):
    """independent field-wise equality of two proxy-holding values -> z3 Bool | bool"""
    ta, tb = type(a), type(b)
    if a is None or b is None:
        return a is b
    if dataclasses.is_dataclass(a) and not isinstance(a, type):
        if ta is not tb:
            return False
        return _and([struct_eq(getattr(a, f.name), getattr(b, f.name)) for f in dataclasses.fields(a)])
    if ta is tuple:
        if tb is not tuple or len(a) != len(b):
            return False
        return _and([struct_eq(x, y) for x, y in zip(a, b)])
    if ta in (SymInt, SymBool, SymFloat, SymUUID, SymEnumMember, SymStr, SymBytes):
        r = (a == b)
        return r if type(r) is bool else r.e
    return a == b


def _and(xs):
    ts = []
    for x in xs:
        if type(x) is bool:
            if not x:
                return False
        else:
            ts.append(x)
    return z3.And(*ts) if ts else True


class EqLemma:
    def __init__(self, cls, shape, opts):
        self.cls, self.shape, self.opts = cls, shape, opts

    def build_both(self, b):
        return b.entity(self.cls, "a"), b.entity(self.cls, "b")

    def run(self, c):
        bld = shapes.Builder(c, self.shape, regions=shapes.REGIONS_QUICK[:1], max_array=1)
        a, b = self.build_both(bld)
        c.notes["builder"] = bld
        c.notes["ab"] = (a, b)
        spec = struct_eq(a, b)
        got = (a == b)
        if type(got) is SymBool:
            got = bool(got)
        refl = (a == a)
        if type(refl) is SymBool:
            refl = bool(refl)
        ne = (a != b)
        if type(ne) is SymBool:
            ne = bool(ne)
        c.outcome = "equal" if got else "different"
        spec_t = z3.BoolVal(spec) if type(spec) is bool else spec
        return [("eq_iff_all_fields_equal", spec_t == z3.BoolVal(bool(got))), ("eq_reflexive", bool(refl)), ("ne_is_not_eq", bool(ne) != bool(got))]

    def witness(self, c, model, clause, info):
        a, b = c.notes["ab"]
        shapes.set_payload_classes(c, model)
        return {"class": shapes.class_id(self.cls), "a": shapes.to_jsonable(shapes.concretise(a, model)), "b": shapes.to_jsonable(shapes.concretise(b, model))}


def hash_on_model(h, c):
    """on a path where a == b: concretise both and compare ==/hash on the real objects"""
    if c.outcome != "equal":
        return None
    a, b = c.notes["ab"]
    m = shapes.prefer_small(c, c.notes["builder"].leaves)
    if m is None:
        return None
    shapes.set_payload_classes(c, m)
    try:
        ca, cb = shapes.concretise(a, m), shapes.concretise(b, m)
    except shapes.TooLarge:
        return None
    finally:
        shapes.FILL_CLASS.clear()
    try:
        return ca == cb and hash(ca) == hash(cb)
    except TypeError:
        return False  # unhashable instance: counted as an inconsistent hash (the facts table names the class)


def task_class(args):
    cid, opts = args
    cls = shapes.class_by_id(cid)
    st = Stats()
    t0 = time.time()
    ok, bad = 0, 0
    probe_h = EqLemma(cls, {}, opts)
    n = 0
    for shape, depth in shapes.shape_schedule(probe_h.build_both, opts["max_shapes"], 1, regions=shapes.REGIONS_QUICK[:1], max_array=1):
        h = EqLemma(cls, shape, opts)

        def on_path(c, h=h):
            nonlocal ok, bad
            r = hash_on_model(h, c)
            if r is True:
                ok += 1
            elif r is False:
                bad += 1

        explore(h, max_paths=opts["per_shape_paths"], stats=st, deadline=t0 + opts["class_seconds"], on_path=on_path)
        n += 1
        if st.paths >= opts["class_paths"]:
            break
    return {"class": cid, "stats": st.to_json(), "hash_ok": ok, "hash_bad": bad}


def check(tier):
    import random

    from .. import install, runner

    t0 = time.time()
    install.install()
    q, n = rules()
    opts = dict(max_shapes=4, per_shape_paths=12, class_paths=40, class_seconds=15) if tier == "quick" else dict(max_shapes=40, per_shape_paths=40, class_paths=600, class_seconds=90)
    classes = shapes.all_entity_classes()
    targets = shapes.signature_representatives(classes) if tier == "quick" else classes
    targets = list(targets)
    random.Random(runner.seed()).shuffle(targets)
    if os.environ.get("VERIF_LIMIT"):
        targets = targets[: int(os.environ["VERIF_LIMIT"])]
    total = Stats()
    hash_ok = hash_bad = 0
    for r in runner.pool_map(task_class, [(shapes.class_id(c), opts) for c in targets], progress=300):
        total.merge(Stats.from_json(r["stats"]))
        hash_ok += r["hash_ok"]
        hash_bad += r["hash_bad"]
    q.concrete("equal_instances_hash_equally_on_solver_models", hash_bad == 0, f"{hash_bad} model(s) with a == b but different hash")
    return F.finish_facts("C15", tier, t0, q, stats=total,
                          functions=["generated dataclass __eq__/__ne__/__hash__/__setattr__/__delattr__ of every schema class and the record classes", "copy.copy/deepcopy, dataclasses.replace, pickle on one instance per class"],
                          bounds={**n, "eq_lemma_classes": len(targets), "eq_lemma": "two independent symbolic instances per class at base shape and single deviations; every scalar symbolic", "exhaustive_facts": True},
                          outside=["hash consistency beyond the dataclass contract (frozen and eq => hash of the field tuple; stdlib trusted) except on the concretised models", "instances with arrays longer than 1 in the eq lemma"],
                          explanation="facts and concrete probes over all %d classes decided as z3 queries over the finite table, plus a symbolic lemma: the real generated __eq__ of %d classes is executed on two independent symbolic instances and must agree with field-wise equality on every path (%d paths); models with a == b are concretised and hashed (%d)" % (n["classes"], len(targets), total.paths, hash_ok),
                          extra={"hash_checks_on_models": hash_ok, "exhaustive": False, **n}, level="other")
