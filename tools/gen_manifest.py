#!/usr/bin/env python3
"""Regenerates /verif/MANIFEST.json from the table below (kept valid at all times)."""
import json, os
HERE = os.path.dirname(os.path.dirname(os.path.abspath(__file__)))
ids = [json.loads(l)["id"] for l in open(os.path.join(HERE, "properties.jsonl"))]

MC = "model_checking"
CHECKS = {
 "C01": dict(level=MC, design="2/C01", technique="symbolic execution of the real entity_writer/entity_reader on proxy values (z3 QF_BV), one solver query per path obligation; counterexamples replayed on the real code",
   text="Bounded symbolic exploration of kio's real writer and reader closures: for every explored (class, shape) all scalar field values are symbolic at once and the solver shows decode(encode(x)) == x and exact consumption on every feasible path; a model is replayed concretely before it is reported.",
   note="Bounds: arrays <= 2 elements, payload lengths < 2^31 in the listed regions, shapes up to the recorded deviation depth, time-typed fields at representatives. Trusted: boundary models (struct, BytesIO, uuid, enum lookup; differentially validated each run), z3."),
 "C02": dict(level=MC, design="2/C02", technique="symbolic differential: real entity_writer vs independent reference encoder on the same symbolic instance, byte-sequence equality decided by z3",
   text="The real writer's symbolic output is compared item by item with an independent spec-derived encoder (kv/kref.py) run on the same proxies under the same path condition; unsat of 'some byte differs' per path.",
   note="Same bounds as C01. Trusted: the reference encoder (about 300 lines, cross-validated concretely against protocol examples), boundary models, z3."),
 "C06": dict(level=MC, design="2/C06", technique="symbolic execution of the real reader on the writer's output with a symbolic stream limit k (all cut positions inside one read share a path)",
   text="The cut position is a solver variable ranging over every strict prefix length; each read forks once on 'fits before the cut'; on every feasible path the only admissible outcome is BufferUnderflow.",
   note="Same instance bounds as C01; the source model never blocks (a reader that blocks on a real socket is outside). Trusted: Src model, z3."),
 "C11": dict(level=MC, design="2/C11", technique="symbolic execution of each public reader/writer on proxy values against bit-level spec formulas (z3 QF_BV); time conversions in integer/real arithmetic with the standard model of IEEE rounding",
   text="One lemma per public primitive reader/writer: the real function runs on solver variables ranging over the whole value domain (all ints of the width, every 6/11-byte varint input, every length region, all whole-millisecond durations/timestamps) and the output is compared with an independently written arithmetic specification; reader-after-writer identity and refusal outside the domain are separate clauses.",
   note="Bounds per lemma are listed in the evidence. Float arithmetic in the time writers is over-approximated by the IEEE standard model (A5): unsat is a proof in the range, sat models are replayed on the real code. Trusted: struct/datetime models, z3."),
 "C12": dict(level=MC, design="2/C12", technique="symbolic execution of the real Phantom metaclass/predicates on proxy values against a pinned range table (z3 QF_BV; Int/Real standard model for the float-based predicates and writers)",
   text="isinstance(v, T), T(v) and T.parse(v) of the real Phantom types run on a solver variable v (integers over [-2^100, 2^100], every 64-bit float pattern, every microsecond duration, every microsecond instant with a symbolic fixed offset); membership is compared with a range table pinned in /verif, the nesting chains are implications between the symbolic membership terms, and member => writer accepts and reads back.",
   note="tzinfo restricted to fixed offsets; non-matching Python types are finite concrete cases. Trusted: datetime/struct models (validated differentially), IEEE standard model for dt.timestamp() and total_seconds(), z3."),
}

def cmd(i, tier):
    return f"./check {i} --tier {tier}"

checks = []
for i in ids:
    if i not in CHECKS:
        continue
    c = CHECKS[i]
    checks.append({
        "property_id": i, "quick_cmd": cmd(i, "quick"), "thorough_cmd": cmd(i, "thorough"),
        "evidence_file": f"/verif/evidence/{i}.json", "replay_cmd_template": "./check --replay {path}", "engine": "kv",
        "level_claimed": {"category": c["level"], "text": c["text"], "design_ref": c["design"]},
        "level_note": c["note"], "technique": c["technique"],
    })
NA = {
 "C04": "the pinned upstream Kafka 3.9.0 message definitions (schema/3.9.0/*.json, fetched from GitHub by codegen.fetch_schema) and the error-code list are not in the sandbox; the property is an equality of two concrete artefacts with no symbolic input, and what remains offline (regenerate-and-diff or a golden snapshot) is a different technique",
}
na = [{"property_id": i, "reason": NA.get(i, "check not built yet (build in progress)")} for i in ids if i not in CHECKS]
m = {
 "version": 1,
 "setup_cmd": "./setup.sh",
 "hooks": {"guard": "KIO_VERIF", "enable": "no hooks are compiled into /repo: every check imports kio from /repo's working tree and rebinds boundary references (struct, io, datetime, uuid, crc32c) to models inside its own process", "baseline_off_cmd": "cd /repo && /venv/bin/python -m pytest -ra -q -p no:cacheprovider --timeout=900 --continue-on-collection-errors", "source_commits": [], "add_only": True},
 "engines": [{"name": "kv", "path": "/verif/kv", "serves_properties": [c["property_id"] for c in checks], "kind_free_text": "symbolic execution of kio's real Python functions on proxy values over z3 (bit-vectors; integer/real standard-model for floats), replay-based DFS over decision prefixes, counterexamples replayed on the unmodified code"}],
 "checks": checks,
 "not_applicable": na,
 "notes": "exit codes: 0 held on everything explored; 1 VIOLATION (reproduced on the real code); 2 inconclusive (engine could not follow the code, solver unknown, or a counterexample did not reproduce). known findings: /verif/known_findings.json",
}
json.dump(m, open(os.path.join(HERE, "MANIFEST.json"), "w"), indent=1)
print("checks:", [c["property_id"] for c in checks], "n/a:", [x["property_id"] for x in na])
