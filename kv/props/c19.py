"""C19 - readers and writers are stateless: history and failures do not matter.

One inductive step from an arbitrary history, on the real cached closures:

* frame: a structural snapshot of everything reachable from the cached reader/writer
  (closure cells, defaults, function attributes) and of the module globals of kio.serial.*
  is taken before a call and compared at EVERY sink.write / source.read callback and after
  return or exception (mid-call observation catches scratch state restored at the end);
* history: call 1 with an arbitrary symbolic instance a - successful, or aborted by an
  injected OSError at the k-th write/read (k symbolic), or by a truncated source - then
  call 2 on the same cached objects with an independent symbolic instance b must give
  exactly the reference bytes for b and decode back to b with exact consumption;
* other classes: creating readers/writers for other classes leaves the snapshot unchanged;
* construction is deterministic: building the closure twice gives equal snapshots.

Thread schedules are not explored (see DESIGN.md): the claim for threads is by reduction
only - no call writes shared state (frame, incl. mid-call) and construction is a
deterministic function of the immutable class."""
from __future__ import annotations

import dataclasses
import os
import sys
import time
import types

import z3

from .. import kref, shapes
from ..core import Stats, Unsupported, Violation, explore
from ..models import ProtocolMonitor, Sink, Src
from ..sym import SymBool, SymBytes, byte_of, sym_var

SERIAL_MODULES = ["kio.serial.readers", "kio.serial.writers", "kio.serial._parse", "kio.serial._serialize", "kio.serial._introspect",
                  "kio.serial._implicit_defaults", "kio.serial._shared", "kio._utils"]


def tier_opts(tier):
    if tier == "quick":
        return dict(regions=shapes.REGIONS_QUICK[:1], max_array=1, max_shapes=3, max_dev=1, per_shape_paths=4, class_paths=400, class_seconds=30, others=6)
    return dict(regions=shapes.REGIONS_QUICK[:2], max_array=2, max_shapes=40, max_dev=2, per_shape_paths=12, class_paths=6000, class_seconds=240, others=25, all_positions=True)


# ---- structural snapshot -----------------------------------------------------------------------
ATOMS = (int, str, bytes, bool, type(None), float, complex, frozenset)


def snapshot(obj, seen=None, depth=0):
    seen = seen if seen is not None else {}
    if isinstance(obj, ATOMS):
        return obj
    if id(obj) in seen:
        return ("ref", seen[id(obj)][0])
    if isinstance(obj, (type, types.ModuleType, types.BuiltinFunctionType, types.MethodDescriptorType)):
        return ("atom", getattr(obj, "__qualname__", getattr(obj, "__name__", "?")), id(obj))
    seen[id(obj)] = (len(seen), obj)  # keeps obj alive: ids stay unique during the walk
    if depth > 40:
        return ("deep", type(obj).__name__)
    if isinstance(obj, types.FunctionType):
        cells = []
        for c in obj.__closure__ or ():
            try:
                cells.append(snapshot(c.cell_contents, seen, depth + 1))
            except ValueError:
                cells.append(("empty-cell",))
        return ("fn", obj.__module__, obj.__qualname__, id(obj.__code__), tuple(cells), snapshot(obj.__defaults__, seen, depth + 1),
                snapshot(obj.__kwdefaults__, seen, depth + 1), snapshot(obj.__dict__, seen, depth + 1))
    if isinstance(obj, types.MethodType):
        return ("method", snapshot(obj.__func__, seen, depth + 1), snapshot(obj.__self__, seen, depth + 1))
    if isinstance(obj, dict):
        return ("dict", tuple((snapshot(k, seen, depth + 1), snapshot(v, seen, depth + 1)) for k, v in obj.items()))
    if isinstance(obj, (list, tuple)):
        return (type(obj).__name__, tuple(snapshot(x, seen, depth + 1) for x in obj))
    if isinstance(obj, set):
        return ("set", tuple(sorted((repr(snapshot(x, seen, depth + 1)) for x in obj))))
    if isinstance(obj, dataclasses.Field):
        return ("field", obj.name, id(obj))
    if dataclasses.is_dataclass(obj):
        return ("dc", type(obj).__module__, type(obj).__qualname__, tuple(snapshot(getattr(obj, f.name), seen, depth + 1) for f in dataclasses.fields(obj)))
    import io as _io

    if isinstance(obj, _io.BytesIO):
        # a real scratch buffer held by a closure: its content and position are state
        return ("bytesio", obj.closed or (obj.getvalue(), obj.tell()))
    if isinstance(obj, types.MappingProxyType):
        return ("mappingproxy", tuple((snapshot(k, seen, depth + 1), snapshot(v, seen, depth + 1)) for k, v in obj.items()))
    d = getattr(obj, "__dict__", None)
    if isinstance(d, dict) and type(obj).__module__.startswith(("kio", "kv")):
        return ("obj", type(obj).__qualname__, snapshot(d, seen, depth + 1))
    return ("opaque", type(obj).__qualname__, id(obj))


def module_snapshot():
    out = []
    for name in SERIAL_MODULES:
        mod = sys.modules.get(name)
        if mod is None:
            continue
        items = []
        for k, v in sorted(vars(mod).items()):
            if k.startswith("__") and k.endswith("__"):
                continue
            if isinstance(v, (dict, list, set, types.MappingProxyType)):
                items.append((k, snapshot(v)))
            elif isinstance(v, types.FunctionType):
                items.append((k, "fn", id(v), id(v.__code__), snapshot(v.__dict__), snapshot(v.__defaults__)))
            else:
                items.append((k, "id", id(v)))
        out.append((name, tuple(items)))
    return tuple(out)


class Frame:
    def __init__(self, *objs):
        self.objs = objs
        self.base = self.take()
        self.checks = 0
        self.broken = None

    def take(self):
        return (tuple(snapshot(o) for o in self.objs), module_snapshot())

    def check(self, where):
        self.checks += 1
        if self.broken is None and self.take() != self.base:
            self.broken = where

    def hook(self, where):
        n = [0]

        def cb(_s):
            # every one of the first stream calls, then every 7th (a scratch state that is set up at
            # the start of a call and restored at its end is visible at any callback in between)
            n[0] += 1
            if n[0] <= 3 or n[0] % 7 == 0:
                self.check(where)

        return cb


# ---- harness -------------------------------------------------------------------------------------
CALL1 = ["write_ok", "write_fault", "read_ok", "read_fault", "read_truncated", "none", "interleaved_write", "interleaved_read"]


class History:
    def __init__(self, cls, shape, opts, kind="none", pos=None):
        self.pos = pos  # stream-call index of the fault / cut / context switch (None: symbolic, forked depth-first)
        from kio.serial import entity_reader, entity_writer

        self.cls = cls
        self.shape = shape
        self.opts = opts
        self.kind = kind
        self.w = entity_writer(cls)
        self.r = entity_reader(cls)

    def build_both(self, b):
        a = b.entity(self.cls, "a")
        bb = b.entity(self.cls, "b")
        return a, bb

    def run(self, c):
        from kio.serial.errors import OutOfBoundValue

        bld = shapes.Builder(c, self.shape, regions=self.opts["regions"], max_array=self.opts["max_array"])
        a, b = self.build_both(bld)
        c.notes["builder"] = bld
        c.notes["ab"] = (a, b)
        frame = Frame(self.w, self.r)
        kind = self.kind
        c.notes["call1"] = kind
        k = None
        if kind.startswith("interleaved"):
            return self.run_interleaved(c, a, b, kind)
        # ---- call 1: arbitrary, may fail
        try:
            if kind.startswith("write"):
                if kind == "write_fault":
                    k = self.pos if self.pos is not None else sym_var("fault_k", 0, 200)[0]
                s1 = Sink(fail_at=k)
                s1.on_write = frame.hook("during call 1 (write)")
                try:
                    self.w(s1, a)
                    c.notes["call1_result"] = "returned"
                except OSError:
                    c.notes["call1_result"] = "OSError"
                except OutOfBoundValue:
                    c.notes["call1_result"] = "refused"
            elif kind.startswith("read"):
                s0 = Sink()
                try:
                    self.w(s0, a)
                except OutOfBoundValue:
                    raise _Skip()
                if kind == "read_fault":
                    k = self.pos if self.pos is not None else sym_var("fault_k", 0, 400)[0]
                src1 = Src(SymBytes(s0.items), fail_at=k, cut=((self.pos if self.pos is not None else True) if kind == "read_truncated" else False))
                c.notes["src1"] = src1
                src1.on_read = frame.hook("during call 1 (read)")
                try:
                    self.r(src1)
                    c.notes["call1_result"] = "returned"
                except OSError:
                    c.notes["call1_result"] = "OSError"
                except Unsupported:
                    raise
                except Exception as e:
                    c.notes["call1_result"] = type(e).__name__
                if kind == "read_fault" and c.notes["call1_result"] == "returned":
                    raise _Skip()  # the fault index lies beyond the last read: same as read_ok
            if kind == "write_fault" and c.notes.get("call1_result") == "returned":
                raise _Skip()
        except _Skip:
            from ..core import PathAbort

            raise PathAbort("call-1 variant not applicable")
        c.notes["fault_k"] = k
        frame.check("after call 1")
        # ---- call 2 on the same cached objects, independent input b
        s2 = Sink()
        s2.on_write = frame.hook("during call 2 (write)")
        try:
            self.w(s2, b)
        except OutOfBoundValue:
            c.outcome = f"{kind}:b_refused"
            return [("no_shared_state_written", frame.broken is None)]
        except Unsupported:
            raise
        except Exception as e:
            raise Violation("call2_encodes_like_a_fresh_writer", {"exception": type(e).__name__, "after": kind})
        ref = kref.encode(b)
        same, why = kref.items_equal(s2.items, ref)
        tail = [byte_of(z3.BitVec("tail0", 8))]
        src2 = Src(SymBytes(list(s2.items) + tail))
        src2.on_read = frame.hook("during call 2 (read)")
        try:
            y = self.r(src2)
        except Unsupported:
            raise
        except Exception as e:
            raise Violation("call2_decodes_like_a_fresh_reader", {"exception": type(e).__name__, "after": kind})
        eq = (y == b)
        if type(eq) is SymBool:
            eq = bool(eq)
        rest, _ = kref.items_equal(src2.remaining().items, tail)
        frame.check("after call 2")
        c.outcome = f"{kind}:{c.notes.get('call1_result', '-')}"
        c.count("frame_checks", frame.checks)
        if frame.broken:
            c.notes["violation_info"] = {"frame_changed": frame.broken, "after": kind}
        return [("no_shared_state_written", frame.broken is None), ("call2_encodes_like_a_fresh_writer", same),
                ("call2_decodes_like_a_fresh_reader", bool(eq)), ("call2_exact_consumption", rest)]

    def run_interleaved(self, c, a, b, kind):
        """One context switch at a stream-call boundary: call A is suspended inside its k-th
        sink.write / source.read (k symbolic) and a COMPLETE call B runs on the same cached closure
        (re-entrant execution = what a thread switch at an I/O call does); then A resumes.  Both
        results must be what they are in isolation."""
        from kio.serial.errors import OutOfBoundValue

        k = self.pos if self.pos is not None else sym_var("switch_k", 0, 400)[0]
        c.notes["fault_k"] = k
        state = {"n": 0, "done": False, "b_items": None, "b_value": None, "b_error": None}
        ref_a = kref.encode(a)
        ref_b = kref.encode(b)
        try:
            if kind == "interleaved_write":
                sink_a = Sink()

                def on_write(_s):
                    if state["done"]:
                        return
                    miss = (k != state["n"])
                    state["n"] += 1
                    if not (miss if type(miss) is bool else bool(miss)):
                        state["done"] = True
                        sb = Sink()
                        self.w(sb, b)
                        state["b_items"] = list(sb.items)

                sink_a.on_write = on_write
                self.w(sink_a, a)
                if not state["done"]:
                    from ..core import PathAbort

                    raise PathAbort("switch index beyond the last stream call")
                same_a, _ = kref.items_equal(sink_a.items, ref_a)
                same_b, _ = kref.items_equal(state["b_items"], ref_b)
                c.outcome = "interleaved_write"
                return [("interleaved_call_A_unaffected", same_a), ("interleaved_call_B_unaffected", same_b)]
            else:
                src_a = Src(SymBytes(ref_a))

                def on_read(_s):
                    if state["done"]:
                        return
                    miss = (k != state["n"])
                    state["n"] += 1
                    if not (miss if type(miss) is bool else bool(miss)):
                        state["done"] = True
                        state["b_value"] = self.r(Src(SymBytes(ref_b)))

                src_a.on_read = on_read
                ya = self.r(src_a)
                if not state["done"]:
                    from ..core import PathAbort

                    raise PathAbort("switch index beyond the last stream call")
                ea = (ya == a)
                eb = (state["b_value"] == b)
                ea = bool(ea) if type(ea) is SymBool else ea
                eb = bool(eb) if type(eb) is SymBool else eb
                c.outcome = "interleaved_read"
                return [("interleaved_call_A_unaffected", bool(ea)), ("interleaved_call_B_unaffected", bool(eb))]
        except OutOfBoundValue:
            from ..core import PathAbort

            raise PathAbort("instance not encodable")
        except Unsupported:
            raise
        except Exception as e:
            from ..core import PathAbort

            if type(e).__name__ == "PathAbort":
                raise
            raise Violation("interleaved_call_A_unaffected", {"exception": type(e).__name__, "msg": str(e)[:200], "kind": kind})

    def witness(self, c, model, clause, info):
        bld = c.notes["builder"]
        m = shapes.prefer_small(c, bld.leaves, extra=c.notes.get("neg_clause")) or model
        a, b = c.notes["ab"]
        k = c.notes.get("fault_k")
        return {"class": shapes.class_id(self.cls), "a": shapes.to_jsonable(shapes.concretise(a, m)), "b": shapes.to_jsonable(shapes.concretise(b, m)),
                "call1": c.notes["call1"], "fault_k": (None if k is None else k if type(k) is int else shapes.concretise(k, m)),
                "cut": (shapes.concretise(c.notes["src1"].cut_at, m) if c.notes.get("src1") is not None and c.notes["src1"].cut_at is not None else None), "info": info}


class _Skip(Exception):
    pass


def finite_checks(cls, opts, others):
    """construction determinism and non-interference of other classes (concrete, finite)"""
    from kio.serial import entity_reader, entity_writer

    out = {}
    r, w = entity_reader(cls), entity_writer(cls)
    base = (snapshot(r), snapshot(w))
    r2 = entity_reader.__wrapped__(cls) if hasattr(entity_reader, "__wrapped__") else None
    w2 = entity_writer.__wrapped__(cls) if hasattr(entity_writer, "__wrapped__") else None
    if r2 is not None:
        def norm(s):
            # identities differ between two constructions (functions, and opaque immutable helpers such as a
            # struct.Struct a closure may legitimately hold): compare the structure only
            return repr(_portable(s))
        out["construction_deterministic"] = norm(snapshot(r2)) == norm(snapshot(r)) and norm(snapshot(w2)) == norm(snapshot(w))
    out["cached_object_is_reused"] = entity_reader(cls) is r and entity_writer(cls) is w
    return out


def order_digests(order):
    """Run in a clean interpreter (no models): create readers/writers for every class in the given
    order and return, per class, a digest of observable behaviour: the bytes of two canonical
    instances, the decoded value of those bytes, and the structure of the reader/writer closures."""
    import hashlib
    import io

    from kio.serial import entity_reader, entity_writer

    from .. import kref

    classes = shapes.all_entity_classes()
    classes = list(reversed(classes)) if order == "rev" else classes
    out = {}
    for cls in classes:
        r, w = entity_reader(cls), entity_writer(cls)
        parts = []
        inst1 = shapes.Builder(None, {}).entity(cls)
        try:
            inst2 = cls(**{f.name: (kref.implicit_default(cls, f) if "tag" in f.metadata else getattr(inst1, f.name)) for f in dataclasses.fields(cls)})
        except Exception as e:
            inst2 = inst1
        for inst in (inst1, inst2):
            buf = io.BytesIO()
            try:
                w(buf, inst)
                data = buf.getvalue()
                back = r(io.BytesIO(data))
                parts.append(data.hex() + "|" + repr(back == inst))
            except Exception as e:
                parts.append("EXC:" + type(e).__name__)
        parts.append(repr(_portable(snapshot(r))))
        parts.append(repr(_portable(snapshot(w))))
        out[shapes.class_id(cls)] = hashlib.sha256("\n".join(parts).encode()).hexdigest()[:20] + ":" + parts[0][:60] + ":" + parts[1][:60]
    return out


def order_dependence():
    """-> list of class ids whose behaviour differs between creation orders (two clean subprocesses)"""
    import json
    import subprocess

    procs = [subprocess.Popen([sys.executable, "-m", "kv.props.c19", "--order", o], cwd=os.path.dirname(os.path.dirname(os.path.dirname(os.path.abspath(__file__)))),
                              stdout=subprocess.PIPE, stderr=subprocess.PIPE, text=True) for o in ("fwd", "rev")]
    outs = []
    for p in procs:
        so, se = p.communicate(timeout=900)
        if p.returncode != 0:
            raise RuntimeError("order-dependence subprocess failed: " + se[-800:])
        outs.append(json.loads(so))
    fwd, rev = outs
    return sorted(k for k in fwd if fwd[k] != rev.get(k)), len(fwd), {k: (fwd[k], rev.get(k)) for k in list(fwd) if fwd[k] != rev.get(k)}


def _portable(s):
    """a snapshot with every process-specific identity removed (comparable across interpreters)"""
    if isinstance(s, tuple):
        if s and s[0] == "fn":
            return ("fn", s[1], s[2], tuple(_portable(x) for x in s[4]), _portable(s[5]), _portable(s[6]), _portable(s[7]))
        if s and s[0] in ("atom", "field", "opaque") and len(s) == 3:
            return (s[0], s[1])
        if s and s[0] == "ref":
            return ("ref",)
        return tuple(_portable(x) for x in s)
    return s


def _strip_ids(s):
    if isinstance(s, tuple):
        if s and s[0] in ("fn",):
            return ("fn", s[1], s[2], tuple(_strip_ids(x) for x in s[4]), _strip_ids(s[5]), _strip_ids(s[6]), _strip_ids(s[7]))
        if s and s[0] == "ref":
            return ("ref",)
        return tuple(_strip_ids(x) for x in s)
    return s


def stream_calls(cls, shape, opts):
    """number of sink.write / source.read calls of one encode / decode for this shape (concrete dry run)"""
    from kio.serial import entity_reader, entity_writer

    b = shapes.Builder(None, {k[2:]: v for k, v in shape.items() if k.startswith("a.")} if False else {}, regions=opts["regions"], max_array=opts["max_array"])
    try:
        x = b.entity(cls)

        class W:
            n = 0
            buf = bytearray()

            def write(self, data):
                W.n += 1
                W.buf += bytes(data)

        W.n, W.buf = 0, bytearray()
        entity_writer(cls)(W(), x)
        import io

        class R:
            n = 0

            def __init__(self, d):
                self.b = io.BytesIO(d)

            def read(self, k=-1):
                R.n += 1
                return self.b.read(k)

        R.n = 0
        entity_reader(cls)(R(bytes(W.buf)))
        return max(W.n, 1), max(R.n, 1)
    except Exception:
        return 8, 8


def task_class(args):
    cid, opts = args
    t0 = time.time()
    if opts.get("deadline") and t0 > opts["deadline"]:
        return {"class": cid, "stats": Stats().to_json(), "shapes": 0, "kinds_ok": 0, "kinds_bad": [], "finite": {}, "wall": 0, "skipped": True}
    cls = shapes.class_by_id(cid)
    stats = Stats()
    deadline = t0 + opts["class_seconds"]
    reps = shapes.signature_representatives(shapes.all_entity_classes())
    fin = finite_checks(cls, opts, [])  # before the closures are used: both constructions are fresh
    probe = History(cls, {}, opts)
    nshapes = 0
    for shape, depth in shapes.shape_schedule(probe.build_both, opts["max_shapes"], opts["max_dev"], regions=opts["regions"], max_array=opts["max_array"]):
        if stats.paths >= opts["class_paths"] or time.time() > deadline:
            break
        nw, nr = stream_calls(cls, shape, opts)
        for kind in CALL1:
            if kind in ("write_ok", "read_ok", "none"):
                positions = [None]
            else:
                n = nw if "write" in kind else nr
                # positions of the fault / cut / context switch: the last calls (tagged sections and trailers),
                # the middle and the first ones; thorough: every position
                positions = list(range(n)) if opts.get("all_positions") else sorted({p for p in (n - 1, n - 2, n - 3, n - 4, n // 2, 1, 0) if 0 <= p < n})
            for pos in positions:
                explore(History(cls, shape, opts, kind, pos), max_paths=opts["per_shape_paths"], stats=stats, deadline=deadline, range_bound=opts["max_array"] + 1)
        nshapes += 1
    return {"class": cid, "stats": stats.to_json(), "shapes": nshapes, "finite": fin, "wall": round(time.time() - t0, 2)}


def check(tier):
    import random

    from .. import install, runner

    t0 = time.time()
    rep = install.install()
    opts = tier_opts(tier)
    if tier == "thorough":
        opts["deadline"] = t0 + 25 * 60
    classes = shapes.all_entity_classes()
    reps = shapes.signature_representatives(classes)
    targets = list(reps if tier == "quick" else classes)
    random.Random(runner.seed()).shuffle(targets)
    if tier == "quick":
        targets = targets[:200]
    if os.environ.get("VERIF_LIMIT"):
        targets = targets[: int(os.environ["VERIF_LIMIT"])]
    total = Stats()
    finite_bad = []
    finite_n = 0
    samples = []
    for r in runner.pool_map(task_class, [(shapes.class_id(c), opts) for c in targets], progress=100):
        st = Stats.from_json(r["stats"])
        total.merge(st)
        for k, ok in r["finite"].items():
            finite_n += 1
            if not ok:
                finite_bad.append((r["class"], k))
        if len(samples) < 4:
            samples.append({"class": r["class"], "paths": st.paths, "shapes": r["shapes"], "outcomes": st.outcomes})
    cex = list(total.cex)
    for cid, k in finite_bad[:10]:
        cex.append({"clause": k, "witness": {"class": cid, "finite": k}, "info": {}})
    try:
        differing, n_order, detail = order_dependence()
    except Exception as e:
        differing, n_order, detail = [], 0, {}
        inconclusive_order = str(e)[:300]
    else:
        inconclusive_order = None
    total.clauses["results_independent_of_creation_order"] = [n_order, n_order - len(differing)]
    for cid in differing[:5]:
        cex.append({"clause": "results_independent_of_creation_order", "witness": {"class": cid, "order": True, "digests": detail.get(cid)}, "info": {}})
    inconclusive = []
    if inconclusive_order:
        inconclusive.append("order-dependence probe failed to run: " + inconclusive_order)
    if total.unsupported:
        inconclusive.append(f"{total.unsupported} path(s) could not be followed by the engine: {list(total.unsupported_msgs.items())[:5]}")
    if total.paths == 0:
        inconclusive.append("no path completed (vacuous)")
    cov = runner.mc_coverage(
        total, functions=["kio.serial._parse.entity_reader + the cached closure it returns", "kio.serial._serialize.entity_writer + the cached closure it returns",
                          "kio._utils.cache (functools.cache)", "kio.serial.writers.write_tagged_field (private buffers)", "module globals of kio.serial.*"],
        bounds={"schedules": "one context switch at any stream-call boundary (sink.write / source.read index k symbolic) of call A to a complete call B on the same cached closures, then A resumes (re-entrant execution); arbitrary bytecode-level preemption is NOT explored",
                "history": "one arbitrary earlier call (successful, OSError at the k-th write/read with k symbolic, truncated source) followed by one call; inductive step for histories of any length given the frame clause",
                "instances": "two independent symbolic instances per path; shapes base + deviations to depth %d" % opts["max_dev"], "classes": len(targets), "of": len(classes),
                "fault_cut_switch_positions": "quick: the last four, the middle and the first two stream calls of the call; thorough: every stream call", "creation_orders": "all classes in forward and in reverse order, each in a clean interpreter; behaviour digests compared for all %d classes" % n_order,
                "thread_schedules": "beyond the stream-call switch above: by reduction only (no shared state written, deterministic construction)"},
        outside=["thread interleavings (no installed engine executes Python threads symbolically; claimed by the non-interference argument only)",
                 "state hidden inside C extension objects (functools.cache internals are trusted)", "faults other than an exception raised by the stream call"],
        rule="one state = one completed symbolic two-call history on the cached reader/writer of one class",
        extra={"finite_checks": finite_n, "finite_failures": finite_bad[:10], "classes_checked": len(targets), "order_dependence_classes_compared": n_order,
               "order_dependent_classes": differing[:10],
               "rebinding_report": {k: v for k, v in rep.items() if k != "__keep__" and v}, "source_hashes": install.source_hashes()})
    return runner.finish("C19", tier, t0, level="model_checking", coverage=cov, assumptions=["A1", "A3", "A7", "A8"], cex=cex,
                         inconclusive=inconclusive, samples=samples)


if __name__ == "__main__":
    import json

    if len(sys.argv) == 3 and sys.argv[1] == "--order":
        print(json.dumps(order_digests(sys.argv[2])))
