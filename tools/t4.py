import sys, json
from kv import install; install.install()
import importlib
mod=importlib.import_module(sys.argv[1]); cid=sys.argv[2]
o=mod.tier_opts(sys.argv[3] if len(sys.argv)>3 else "quick")
r=mod.task_class((cid,o)); st=r.pop("stats"); cex=st.pop("cex")
print(r, {k: st[k] for k in ("paths","aborted","unsupported","unsupported_msgs","queries","solver_s","clauses","outcomes","capped")})
for c in cex[:3]: print(json.dumps(c)[:600])
