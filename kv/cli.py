"""./check <id> [--tier quick|thorough] | ./check --replay <file> | ./check selftest"""
from __future__ import annotations

import argparse
import os
import sys


def main(argv=None):
    ap = argparse.ArgumentParser()
    ap.add_argument("prop", nargs="?")
    ap.add_argument("--tier", default=os.environ.get("VERIF_TIER", "quick"), choices=["quick", "thorough"])
    ap.add_argument("--replay")
    a = ap.parse_args(argv)
    if a.replay:
        from . import replay

        return replay.main([a.replay])
    prop = a.prop
    if prop == "selftest":
        from . import selftest

        try:
            return selftest.full()
        except selftest.SelfTestFailure as e:
            print(f"SELFTEST FAILED: {e}")
            return 2
    if prop in ("C01", "C02", "C06", "C03", "C05"):
        from .props import entity

        return entity.check(prop, a.tier)
    import importlib

    try:
        mod = importlib.import_module(f"kv.props.{prop.lower()}")
    except ImportError as e:
        print(f"no check for {prop}: {e}", file=sys.stderr)
        return 2
    return mod.check(a.tier)


def _guarded():
    try:
        return main()
    except SystemExit:
        raise
    except BaseException as e:  # a crash of the machinery is never a verdict about kio
        import traceback

        traceback.print_exc()
        print(f"INCONCLUSIVE: the check crashed: {type(e).__name__}: {e}")
        return 2


if __name__ == "__main__":
    sys.exit(_guarded())
