"""C01 (b) - the time-typed primitives over their WHOLE value domain: the entity harness of C01
places time fields at representative instants only, so the round trip of every whole-millisecond
duration and timestamp through the real writer and reader is decided here (same lemma functions
as C11, run and reported under C01)."""
from __future__ import annotations

from .c11 import mk_datetime, mk_timedelta

LEMMAS = [
    ("timedelta_i32", (mk_timedelta(32), {"rmode": True})),
    ("timedelta_i64", (mk_timedelta(64), {"rmode": True})),
    ("datetime_i64", (mk_datetime(False), {"rmode": True})),
    ("nullable_datetime_i64", (mk_datetime(True), {"rmode": True})),
]
